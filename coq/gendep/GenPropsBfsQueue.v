(* GenPropsBfsQueue.v -- the BFS queue of bfs_queues.rs regenerated on every run (SVG.BfsQueueGen,
   instance BfsQueue<usize>): for every history of push / pop from new(), push answers "new" exactly
   for the elements never pushed before, and the elements popped so far followed by the elements still
   queued are the first occurrences of the pushed elements, in order: each element is handed out at
   most once and in first-push order.  No operation panics. *)
Require Import Base GenBase.
From SVG Require Import BfsQueueGen GenLinkBfsQueue.
Require Import ZifyBool ZifyNat.
Open Scope nat_scope.

(* pushed: every element given to push so far, in order; popped: the elements handed out so far *)
Record qinv (q : BfsQueue) (pushed popped : list nat) : Prop := {
  qi_all : popped ++ BfsQueue_queue q = first_occ pushed;
  qi_set : forall x, In x (BfsQueue_set q) <-> In x pushed
}.

Lemma g_new : exists q, M_BfsQueue_new = Some q /\ qinv q [] [].
Proof. rewrite canon_new. eexists. split; [reflexivity|]. split; [reflexivity|]. intros x. cbn. tauto. Qed.

Lemma g_push q pushed popped x : qinv q pushed popped ->
  exists q', M_BfsQueue_push q x = Some (q', negb (existsb (Nat.eqb x) pushed)) /\ qinv q' (pushed ++ [x]) popped.
Proof.
  intros [Hall Hset]. rewrite canon_push. unfold push_c.
  assert (E : existsb (Nat.eqb x) (BfsQueue_set q) = existsb (Nat.eqb x) pushed).
  { apply Bool.eq_true_iff_eq. rewrite !existsb_in. apply Hset. }
  rewrite E. destruct (existsb (Nat.eqb x) pushed) eqn:Ex.
  - exists q. split; [reflexivity|]. split.
    + rewrite first_occ_snoc. unfold occ_step.
      replace (existsb (Nat.eqb x) (first_occ pushed)) with true; [exact Hall|].
      symmetry. apply existsb_in. apply first_occ_in. apply existsb_in. exact Ex.
    + intros y. rewrite Hset, in_app_iff. cbn [In]. split; [tauto|]. intros [H|[H|[]]]; [exact H|]. subst. apply existsb_in. exact Ex.
  - eexists. split; [reflexivity|]. split; cbn [BfsQueue_queue BfsQueue_set].
    + rewrite first_occ_snoc. unfold occ_step.
      replace (existsb (Nat.eqb x) (first_occ pushed)) with false.
      * rewrite app_assoc, Hall. reflexivity.
      * symmetry. apply Bool.not_true_is_false. intros H. apply (proj1 (existsb_in x _)) in H. apply (proj1 (first_occ_in _ x)) in H.
        apply (proj2 (existsb_in x pushed)) in H. congruence.
    + intros y. cbn [In]. rewrite Hset, in_app_iff. cbn [In]. tauto.
Qed.

Lemma g_pop q pushed popped : qinv q pushed popped ->
  exists q', M_BfsQueue_pop q = Some (q', nth_error (first_occ pushed) (length popped)) /\
             qinv q' pushed (popped ++ match nth_error (first_occ pushed) (length popped) with Some y => [y] | None => [] end).
Proof.
  intros [Hall Hset]. rewrite canon_pop. unfold pop_c. destruct (BfsQueue_queue q) as [|y r] eqn:Eq.
  - rewrite app_nil_r in Hall. subst popped.
    replace (nth_error (first_occ pushed) (length (first_occ pushed))) with (@None nat) by (symmetry; apply nth_error_None; lia).
    exists q. split; [reflexivity|]. split; [rewrite Eq, !app_nil_r; reflexivity|exact Hset].
  - assert (Hn : nth_error (first_occ pushed) (length popped) = Some y).
    { rewrite <- Hall. rewrite nth_error_app2 by lia. rewrite Nat.sub_diag. reflexivity. }
    rewrite Hn. eexists. split; [reflexivity|]. split; cbn [BfsQueue_queue BfsQueue_set].
    + rewrite <- app_assoc. exact Hall.
    + exact Hset.
Qed.

Lemma g_is_empty q pushed popped : qinv q pushed popped ->
  M_BfsQueue_is_empty q = Some (Nat.eqb (length popped) (length (first_occ pushed))).
Proof.
  intros [Hall _]. rewrite canon_is_empty. f_equal. apply (f_equal (@length nat)) in Hall. rewrite app_length in Hall.
  destruct (BfsQueue_queue q); cbn [length] in Hall; symmetry; [apply Nat.eqb_eq|apply Nat.eqb_neq]; lia.
Qed.

(* ---- every history ---- *)
Inductive qop := Push (x : nat) | Pop.
Definition qstep (st : option (BfsQueue * list bool * list nat)) (o : qop) : option (BfsQueue * list bool * list nat) :=
  match st with
  | None => None
  | Some (q, answers, out) =>
      match o with
      | Push x => match M_BfsQueue_push q x with Some (q', b) => Some (q', answers ++ [b], out) | None => None end
      | Pop => match M_BfsQueue_pop q with
               | Some (q', Some y) => Some (q', answers, out ++ [y])
               | Some (q', None) => Some (q', answers, out)
               | None => None
               end
      end
  end.
Definition pushes (ops : list qop) : list nat := flat_map (fun o => match o with Push x => [x] | Pop => [] end) ops.

Lemma g_history ops : exists q answers out,
  fold_left qstep ops (option_map (fun q => (q, [], [])) M_BfsQueue_new) = Some (q, answers, out) /\
  out ++ BfsQueue_queue q = first_occ (pushes ops) /\ NoDup (out ++ BfsQueue_queue q) /\
  (forall x, In x out -> In x (pushes ops)).
Proof.
  destruct g_new as (q0 & E0 & I0). rewrite E0. cbn [option_map].
  assert (G : forall ops q answers pushed popped, qinv q pushed popped ->
            exists q' answers' out', fold_left qstep ops (Some (q, answers, popped)) = Some (q', answers', out') /\
                                     qinv q' (pushed ++ pushes ops) out').
  { clear. induction ops as [|o ops IH]; intros q answers pushed popped I.
    - exists q, answers, popped. split; [reflexivity|]. cbn [pushes flat_map]. rewrite app_nil_r. exact I.
    - cbn [fold_left qstep]. destruct o as [x|].
      + destruct (g_push q pushed popped x I) as (q' & -> & I').
        destruct (IH q' (answers ++ [negb (existsb (Nat.eqb x) pushed)]) (pushed ++ [x]) popped I') as (q2 & a2 & o2 & E & I2).
        exists q2, a2, o2. split; [exact E|]. cbn [pushes flat_map]. rewrite <- app_assoc in I2. exact I2.
      + destruct (g_pop q pushed popped I) as (q' & -> & I').
        destruct (nth_error (first_occ pushed) (length popped)) as [y|].
        * destruct (IH q' answers pushed (popped ++ [y]) I') as (q2 & a2 & o2 & E & I2). exists q2, a2, o2. split; [exact E|exact I2].
        * rewrite app_nil_r in I'. destruct (IH q' answers pushed popped I') as (q2 & a2 & o2 & E & I2). exists q2, a2, o2. split; [exact E|exact I2]. }
  destruct (G ops q0 [] [] [] I0) as (q & a & o & E & [Hall Hset]). cbn [app] in Hall.
  exists q, a, o. split; [exact E|]. split; [exact Hall|]. split.
  - rewrite Hall. unfold first_occ. apply occ_fold_nodup. constructor.
  - intros x Hx. apply first_occ_in. rewrite <- Hall. apply in_or_app. left. exact Hx.
Qed.

Example g_example :
  option_map (fun r => (snd (fst r), snd r, BfsQueue_queue (fst (fst r))))
    (fold_left qstep [Push 3; Push 5; Push 3; Pop; Push 7; Push 5; Pop; Pop; Pop; Push 3]
               (option_map (fun q => (q, [], [])) M_BfsQueue_new))
  = Some ([true; true; false; true; false; false], [3; 5; 7], []).
Proof. vm_compute. reflexivity. Qed.
