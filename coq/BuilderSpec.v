(* BuilderSpec.v -- what a sequence of AutomatonBuilder calls *specifies* (independent of how build
   works), plus executable decision procedures on automata used as property oracles:
   product-exploration language equivalence of two DFAs and Moore refinement (Nerode classes).
   Definitions only; proofs in BuilderProofs.v / NerodeProofs.v. *)
Require Import Base CharSet Partition PartitionSpec Automaton.
Open Scope nat_scope.

(* ---------- builder histories ---------- *)
Inductive bop := BNew (k : N) | BAdd (k : N) (s : cs) (k' : N) | BDef (k k' : N) | BFin (k : N).
Definition run_bop (b : builder) (o : bop) : builder :=
  match o with
  | BNew k => b_new k
  | BAdd k s k' => b_add_transition b k s k'
  | BDef k k' => b_set_default b k k'
  | BFin k => b_mark_final b k
  end.
(* a history starts with BNew *)
Definition run_history (h : list bop) : builder := fold_left run_bop h {| id_map := []; bstates := [] |}.

(* names in first-mention order *)
Definition add_name (l : list N) (k : N) : list N := if existsb (N.eqb k) l then l else l ++ [k].
Definition h_names (h : list bop) : list N :=
  fold_left (fun l o => match o with
                        | BNew k => add_name [] k
                        | BAdd k _ k' | BDef k k' => add_name (add_name l k) k'
                        | BFin k => add_name l k
                        end) h [].
(* explicit transitions of state k, in call order *)
Definition h_labels (h : list bop) (k : N) : list (cs * N) :=
  flat_map (fun o => match o with BAdd k1 s k' => if N.eqb k1 k then [(s, k')] else [] | _ => [] end) h.
(* the default declared last for k *)
Definition h_default (h : list bop) (k : N) : option N :=
  fold_left (fun d o => match o with BDef k1 k' => if N.eqb k1 k then Some k' else d | _ => d end) h None.
Definition h_final (h : list bop) (k : N) : bool :=
  existsb (fun o => match o with BFin k1 => N.eqb k1 k | _ => false end) h.

(* the successor the caller specified for (k, c): the explicit transition covering c, else the default *)
Definition spec_delta (h : list bop) (k : N) (c : N) : option N :=
  match find (fun sl => cs_contains (fst sl) c) (h_labels h k) with
  | Some (_, k') => Some k'
  | None => h_default h k
  end.
(* labels pairwise disjoint (conflict-free in the sense of build's documentation) *)
Fixpoint labels_disjoint (l : list cs) : bool :=
  match l with
  | [] => true
  | s :: t => forallb (fun o => match cs_inter s o with None => true | Some _ => false end) t && labels_disjoint t
  end.
(* no character gets two different successors (weaker: overlapping labels with equal targets allowed) *)
Fixpoint labels_consistent (l : list (cs * N)) : bool :=
  match l with
  | [] => true
  | (s, k) :: t => forallb (fun o => match cs_inter s (fst o) with None => true | Some _ => N.eqb k (snd o) end) t
                   && labels_consistent t
  end.
(* every good character is covered by some label: sweep over the sorted labels *)
Fixpoint covers_from (w : N) (l : list cs) : N :=          (* least uncovered >= w, labels sorted by start *)
  match l with
  | [] => w
  | s :: t => if (fst s <=? w)%N then covers_from (N.max w (snd s + 1)) t else w
  end.
Definition labels_cover_all (l : list cs) : bool := (MAXC <? covers_from 0 (sort_by_start l))%N.
Definition state_complete (h : list bop) (k : N) : bool :=
  labels_cover_all (map fst (h_labels h k)) || match h_default h k with Some _ => true | None => false end.
Definition state_strict_ok (h : list bop) (k : N) : bool :=
  labels_disjoint (map fst (h_labels h k)) &&
  (if labels_cover_all (map fst (h_labels h k)) then match h_default h k with None => true | Some _ => false end
   else match h_default h k with Some _ => true | None => false end).
(* soundness clause of C13: what must hold of h whenever build returns an automaton *)
Definition spec_sound (h : list bop) : bool :=
  forallb (fun k => labels_consistent (h_labels h k) && state_complete h k) (h_names h).
(* acceptance clause: complete conflict-free specs declaring defaults only where needed *)
Definition spec_strict (h : list bop) : bool := forallb (state_strict_ok h) (h_names h).
Fixpoint index_of_name (k : N) (l : list N) (i : nat) : option nat :=
  match l with [] => None | x :: t => if N.eqb x k then Some i else index_of_name k t (S i) end.
Definition name_id (h : list bop) (k : N) : option nat := index_of_name k (h_names h) 0.

(* ---------- automata oracles ---------- *)
Definition aut_wfb (a : automaton) : bool :=
  Nat.eqb (length (astates a)) (num_states a) && Nat.ltb (initial a) (num_states a) &&
  Nat.eqb (length (filter a_final (astates a))) (num_final a) &&
  forallb (fun ix => let '(i, s) := ix in
             Nat.eqb (a_id s) i && pwfb (a_classes s) && Nat.eqb (length (a_succ s)) (plen (a_classes s)) &&
             forallb (fun t => Nat.ltb t (num_states a)) (a_succ s) &&
             match a_default s with
             | Some d => Nat.ltb d (num_states a)      (* a default with an empty complement is harmless *)
             | None => pempty_complement (a_classes s)
             end) (combine (seq 0 (length (astates a))) (astates a)).
Definition a_is_final (a : automaton) (s : nat) : bool := a_final (a_state a s).
Definition a_step (a : automaton) (s : nat) (c : N) : option nat := a_next a (a_state a s) c.

(* language equivalence of (a, s0) and (b, t0): explore reachable pairs over representatives of the
   merged alphabet partition; None = some next is undefined (not total) or out of fuel *)
Definition pair_eqb (p q : nat * nat) := Nat.eqb (fst p) (fst q) && Nat.eqb (snd p) (snd q).
Fixpoint equiv_go (fuel : nat) (a b : automaton) (alpha : list N) (queue seen : list (nat * nat)) : option bool :=
  match fuel with
  | O => None
  | S f =>
    match queue with
    | [] => Some true
    | (s, t) :: q =>
      if negb (Bool.eqb (a_is_final a s) (a_is_final b t)) then Some false
      else
        match fold_left (fun (acc : option (list (nat * nat) * list (nat * nat))) c =>
                           match acc with
                           | None => None
                           | Some (q1, s1) =>
                             match a_step a s c, a_step b t c with
                             | Some s', Some t' =>
                               if existsb (pair_eqb (s', t')) s1 then Some (q1, s1)
                               else Some (q1 ++ [(s', t')], (s', t') :: s1)
                             | _, _ => None
                             end
                           end) alpha (Some (q, seen)) with
        | None => None
        | Some (q1, s1) => equiv_go f a b alpha q1 s1
        end
    end
  end.
Definition joint_alphabet (a b : automaton) : list N :=
  ppicks (pmerge (combined_partition a) (combined_partition b)).
Definition dfa_equiv_from (a b : automaton) (s t : nat) : option bool :=
  equiv_go (S (num_states a * num_states b)) a b (joint_alphabet a b) [(s, t)] [(s, t)].
Definition dfa_equiv (a b : automaton) : option bool := dfa_equiv_from a b (initial a) (initial b).

(* Moore refinement: class of a state = (final?, classes of successors over the alphabet) *)
Definition sig_eqb (x y : nat * list nat) : bool :=
  Nat.eqb (fst x) (fst y) && (Nat.eqb (length (snd x)) (length (snd y))) &&
  forallb (fun p => Nat.eqb (fst p) (snd p)) (combine (snd x) (snd y)).
Fixpoint assign_classes (sigs : list (nat * list nat)) (known : list (nat * list nat)) : list nat :=
  match sigs with
  | [] => []
  | s :: t =>
    match (fix find (l : list (nat * list nat)) (i : nat) : option nat :=
             match l with [] => None | x :: r => if sig_eqb x s then Some i else find r (S i) end) known 0 with
    | Some i => i :: assign_classes t known
    | None => length known :: assign_classes t (known ++ [s])
    end
  end.
Definition refine_once (a : automaton) (alpha : list N) (cls : list nat) : option (list nat) :=
  do sigs <- (fix go (ss : list nat) : option (list (nat * list nat)) :=
                match ss with
                | [] => Some []
                | s :: t =>
                  do succ <- (fix sg (cs : list N) : option (list nat) :=
                                match cs with
                                | [] => Some []
                                | c :: r => do n <- a_step a s c; do k <- nth_error cls n; do rest <- sg r; Some (k :: rest)
                                end) alpha;
                  do k <- nth_error cls s;
                  do rest <- go t; Some ((k, succ) :: rest)
                end) (seq 0 (num_states a));
  Some (assign_classes sigs []).
Definition num_classes (cls : list nat) : nat := S (fold_left Nat.max cls 0).
Fixpoint moore_go (fuel : nat) (a : automaton) (alpha : list N) (cls : list nat) : option (list nat) :=
  match fuel with
  | O => Some cls
  | S f =>
    do cls' <- refine_once a alpha cls;
    if Nat.eqb (num_classes cls') (num_classes cls) then Some cls' else moore_go f a alpha cls'
  end.
(* Nerode class of every state (None if the automaton is not total) *)
Definition nerode_classes (a : automaton) : option (list nat) :=
  match num_states a with
  | O => Some []
  | _ =>
    let alpha := ppicks (combined_partition a) in
    let init := assign_classes (map (fun s => ((if a_is_final a s then 1 else 0), @nil nat)) (seq 0 (num_states a))) [] in
    moore_go (S (num_states a)) a alpha init
  end.
Definition nodup_nat (l : list nat) : bool :=
  (fix go (l : list nat) := match l with [] => true | x :: t => negb (existsb (Nat.eqb x) t) && go t end) l.
(* no two distinct states are equivalent *)
Definition collapsed (a : automaton) : option bool := do c <- nerode_classes a; Some (nodup_nat c).
Definition nerode_index (a : automaton) : option nat :=
  do c <- nerode_classes a; Some (match c with [] => 0 | _ => num_classes c end).
(* reachable states (sorted) *)
Definition reachable (a : automaton) : list nat :=
  sort_nat (reach_go (S (num_states a)) a [initial a] [initial a] []).
