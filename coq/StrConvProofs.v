(* StrConvProofs.v -- specifications and proofs for StrConv.v (property C09).

   Specifications (independent of the code):
     lex_lt / lex_le     the inductive strict / non-strict lexicographic order on code-point lists
     dec_value           the decimal value of a digit string (Horner), all_digits, numeral
   Theorems: the model's orders are lex_lt / lex_le and form a total order consistent with equality
   and prefixes; str_to_int is the decimal value or -1 or the documented panic and never a wrong
   number; str_from_int is the unique decimal numeral; the round trips. *)
Require Import Base StrConv.
Open Scope N_scope.

(* ================================================================== lexicographic order: spec *)
Inductive lex_lt : word -> word -> Prop :=
| lex_nil  : forall c w, lex_lt [] (c :: w)
| lex_head : forall a b v w, a < b -> lex_lt (a :: v) (b :: w)
| lex_tail : forall a v w, lex_lt v w -> lex_lt (a :: v) (a :: w).

Definition lex_le (v w : word) : Prop := lex_lt v w \/ v = w.

(* structural deciders, used only as a stepping stone in the proofs *)
Fixpoint lex_ltb (v w : word) : bool :=
  match v, w with
  | [], [] => false
  | [], _ :: _ => true
  | _ :: _, [] => false
  | a :: v', b :: w' => if a =? b then lex_ltb v' w' else a <? b
  end.
Fixpoint lex_leb (v w : word) : bool :=
  match v, w with
  | [], _ => true
  | _ :: _, [] => false
  | a :: v', b :: w' => if a =? b then lex_leb v' w' else a <? b
  end.

Lemma lex_ltb_iff v : forall w, lex_ltb v w = true <-> lex_lt v w.
Proof.
  induction v as [|a v IH]; intros [|b w]; cbn [lex_ltb].
  - split; [discriminate | intros H; inversion H].
  - split; [intros _; constructor | reflexivity].
  - split; [discriminate | intros H; inversion H].
  - destruct (N.eqb_spec a b) as [E|E].
    + subst b. rewrite IH. split; [intros H; constructor 3; exact H|].
      intros H; inversion H; subst; [lia | assumption].
    + rewrite N.ltb_lt. split; [intros H; constructor 2; exact H|].
      intros H; inversion H; subst; [assumption | congruence].
Qed.

Lemma lex_lt_irrefl v : ~ lex_lt v v.
Proof.
  induction v as [|a v IH]; intros H; inversion H; subst; [lia | auto].
Qed.

Lemma lex_lt_trans a b c : lex_lt a b -> lex_lt b c -> lex_lt a c.
Proof.
  intros H; revert c. induction H as [x w | x y v w Hxy | x v w Hvw IH]; intros c Hc.
  - inversion Hc; subst; constructor.
  - inversion Hc; subst; constructor 2; [lia | assumption].
  - inversion Hc; subst; [constructor 2; assumption | constructor 3; auto].
Qed.

Lemma lex_lt_total v : forall w, lex_lt v w \/ v = w \/ lex_lt w v.
Proof.
  induction v as [|a v IH]; intros [|b w].
  - right; left; reflexivity.
  - left; constructor.
  - right; right; constructor.
  - destruct (N.lt_trichotomy a b) as [H|[H|H]].
    + left; constructor 2; assumption.
    + subst b. destruct (IH w) as [H|[H|H]].
      * left; constructor 3; assumption.
      * right; left; congruence.
      * right; right; constructor 3; assumption.
    + right; right; constructor 2; assumption.
Qed.

Lemma lex_lt_asym v w : lex_lt v w -> ~ lex_lt w v.
Proof. intros H1 H2. exact (lex_lt_irrefl v (lex_lt_trans _ _ _ H1 H2)). Qed.

Lemma lex_leb_iff v : forall w, lex_leb v w = true <-> lex_le v w.
Proof.
  unfold lex_le.
  induction v as [|a v IH]; intros [|b w]; cbn [lex_leb].
  - split; auto.
  - split; [intros _; left; constructor | reflexivity].
  - split; [discriminate | intros [H|H]; [inversion H | discriminate]].
  - destruct (N.eqb_spec a b) as [E|E].
    + subst b. rewrite IH. split.
      * intros [H|H]; [left; constructor 3; assumption | right; congruence].
      * intros [H|H]; [inversion H; subst; [lia | left; assumption] | right; congruence].
    + rewrite N.ltb_lt. split; [intros H; left; constructor 2; exact H|].
      intros [H|H]; [inversion H; subst; [assumption | congruence] | congruence].
Qed.

Lemma lex_le_prefix v u : lex_le v (v ++ u).
Proof.
  unfold lex_le. induction v as [|a v IH]; cbn [app].
  - destruct u; [right; reflexivity | left; constructor].
  - destruct IH as [H|H]; [left; constructor 3; assumption | right; congruence].
Qed.

Lemma lex_lt_strict_prefix v u : u <> [] -> lex_lt v (v ++ u).
Proof.
  intros Hu. destruct (lex_le_prefix v u) as [H|H]; [assumption|].
  exfalso. apply Hu. rewrite <- (app_nil_r v) in H at 1. exact (eq_sym (app_inv_head _ _ _ H)).
Qed.

(* ================================================================== the loops compute lex_ltb / lex_leb *)
Lemma nth_error_mid (p : word) a v : nth_error (p ++ a :: v) (length p) = Some a.
Proof. rewrite nth_error_app2 by lia. rewrite Nat.sub_diag. reflexivity. Qed.

Lemma vector_lt_gen : forall v' w' p fuel max,
  max = (length p + Nat.min (length v') (length w'))%nat ->
  (Nat.min (length v') (length w') < fuel)%nat ->
  (do i <- skip_equal fuel (p ++ v') (p ++ w') max (length p);
   if (i =? max)%nat then Some (length (p ++ v') <? length (p ++ w'))%nat
   else do a <- nth_error (p ++ v') i; do b <- nth_error (p ++ w') i; Some (a <? b))
  = Some (lex_ltb v' w').
Proof.
  induction v' as [|a v' IH]; intros w' p fuel max Hmax Hf.
  - destruct fuel as [|f]; [lia|]. cbn [length Nat.min] in Hmax.
    cbn [skip_equal]. replace (length p <? max)%nat with false by (symmetry; apply Nat.ltb_ge; lia).
    cbn [bind]. replace (length p =? max)%nat with true by (symmetry; apply Nat.eqb_eq; lia).
    rewrite !app_length. destruct w' as [|b w']; cbn [lex_ltb length]; f_equal.
    + apply Nat.ltb_ge; lia.
    + apply Nat.ltb_lt; lia.
  - destruct w' as [|b w'].
    + destruct fuel as [|f]; [lia|]. cbn [length Nat.min] in Hmax.
      cbn [skip_equal]. replace (length p <? max)%nat with false by (symmetry; apply Nat.ltb_ge; lia).
      cbn [bind]. replace (length p =? max)%nat with true by (symmetry; apply Nat.eqb_eq; lia).
      rewrite !app_length. cbn [lex_ltb length]. f_equal. apply Nat.ltb_ge; lia.
    + cbn [length] in Hmax, Hf. rewrite <- Nat.succ_min_distr in Hmax, Hf.
      destruct fuel as [|f]; [lia|]. cbn [skip_equal].
      replace (length p <? max)%nat with true by (symmetry; apply Nat.ltb_lt; lia).
      rewrite !nth_error_mid. cbn [bind lex_ltb].
      destruct (N.eqb_spec a b) as [E|E].
      * subst b.
        replace (p ++ a :: v') with ((p ++ [a]) ++ v') by (rewrite <- app_assoc; reflexivity).
        replace (p ++ a :: w') with ((p ++ [a]) ++ w') by (rewrite <- app_assoc; reflexivity).
        replace (S (length p)) with (length (p ++ [a])) by (rewrite app_length; cbn [length]; lia).
        apply IH; [rewrite app_length; cbn [length]; lia | lia].
      * cbn [bind]. replace (length p =? max)%nat with false by (symmetry; apply Nat.eqb_neq; lia).
        rewrite !nth_error_mid. reflexivity.
Qed.

Lemma vector_le_gen : forall v' w' p fuel max,
  max = (length p + Nat.min (length v') (length w'))%nat ->
  (Nat.min (length v') (length w') < fuel)%nat ->
  (do i <- skip_equal fuel (p ++ v') (p ++ w') max (length p);
   if (i =? max)%nat then Some (length (p ++ v') <=? length (p ++ w'))%nat
   else do a <- nth_error (p ++ v') i; do b <- nth_error (p ++ w') i; Some (a <? b))
  = Some (lex_leb v' w').
Proof.
  induction v' as [|a v' IH]; intros w' p fuel max Hmax Hf.
  - destruct fuel as [|f]; [lia|]. cbn [length Nat.min] in Hmax.
    cbn [skip_equal]. replace (length p <? max)%nat with false by (symmetry; apply Nat.ltb_ge; lia).
    cbn [bind]. replace (length p =? max)%nat with true by (symmetry; apply Nat.eqb_eq; lia).
    rewrite !app_length. cbn [lex_leb length]. f_equal. apply Nat.leb_le; lia.
  - destruct w' as [|b w'].
    + destruct fuel as [|f]; [lia|]. cbn [length Nat.min] in Hmax.
      cbn [skip_equal]. replace (length p <? max)%nat with false by (symmetry; apply Nat.ltb_ge; lia).
      cbn [bind]. replace (length p =? max)%nat with true by (symmetry; apply Nat.eqb_eq; lia).
      rewrite !app_length. cbn [lex_leb length]. f_equal. apply Nat.leb_gt; lia.
    + cbn [length] in Hmax, Hf. rewrite <- Nat.succ_min_distr in Hmax, Hf.
      destruct fuel as [|f]; [lia|]. cbn [skip_equal].
      replace (length p <? max)%nat with true by (symmetry; apply Nat.ltb_lt; lia).
      rewrite !nth_error_mid. cbn [bind lex_leb].
      destruct (N.eqb_spec a b) as [E|E].
      * subst b.
        replace (p ++ a :: v') with ((p ++ [a]) ++ v') by (rewrite <- app_assoc; reflexivity).
        replace (p ++ a :: w') with ((p ++ [a]) ++ w') by (rewrite <- app_assoc; reflexivity).
        replace (S (length p)) with (length (p ++ [a])) by (rewrite app_length; cbn [length]; lia).
        apply IH; [rewrite app_length; cbn [length]; lia | lia].
      * cbn [bind]. replace (length p =? max)%nat with false by (symmetry; apply Nat.eqb_neq; lia).
        rewrite !nth_error_mid. reflexivity.
Qed.

Lemma str_lt_ltb v w : str_lt v w = Some (lex_ltb v w).
Proof.
  unfold str_lt, vector_lt.
  exact (vector_lt_gen v w [] _ _ eq_refl (Nat.lt_succ_diag_r _)).
Qed.

Lemma str_le_leb v w : str_le v w = Some (lex_leb v w).
Proof.
  unfold str_le, vector_le.
  exact (vector_le_gen v w [] _ _ eq_refl (Nat.lt_succ_diag_r _)).
Qed.

(* ================================================================== order theorems on the model *)
(* str_lt never panics and is the strict lexicographic order *)
Theorem lt_lex : forall v w, exists b, str_lt v w = Some b /\ (b = true <-> lex_lt v w).
Proof. intros v w. exists (lex_ltb v w). split; [apply str_lt_ltb | apply lex_ltb_iff]. Qed.

Theorem le_lex : forall v w, exists b, str_le v w = Some b /\ (b = true <-> lex_le v w).
Proof. intros v w. exists (lex_leb v w). split; [apply str_le_leb | apply lex_leb_iff]. Qed.

Lemma str_lt_true_iff v w : str_lt v w = Some true <-> lex_lt v w.
Proof.
  rewrite str_lt_ltb, <- lex_ltb_iff. split; [intros H; injection H; auto | intros H; rewrite H; reflexivity].
Qed.

Lemma str_le_true_iff v w : str_le v w = Some true <-> lex_le v w.
Proof.
  rewrite str_le_leb, <- lex_leb_iff. split; [intros H; injection H; auto | intros H; rewrite H; reflexivity].
Qed.

Theorem lt_irrefl : forall v, str_lt v v = Some false.
Proof.
  intros v. rewrite str_lt_ltb. f_equal. destruct (lex_ltb v v) eqn:E; [|reflexivity].
  apply lex_ltb_iff in E. destruct (lex_lt_irrefl v E).
Qed.

Theorem lt_trans : forall a b c, str_lt a b = Some true -> str_lt b c = Some true -> str_lt a c = Some true.
Proof. intros a b c. rewrite !str_lt_true_iff. apply lex_lt_trans. Qed.

Theorem lt_total : forall a b, str_lt a b = Some true \/ a = b \/ str_lt b a = Some true.
Proof. intros a b. rewrite !str_lt_true_iff. apply lex_lt_total. Qed.

Theorem lt_asym : forall a b, str_lt a b = Some true -> str_lt b a = Some false.
Proof.
  intros a b H. apply str_lt_true_iff in H. rewrite str_lt_ltb. f_equal.
  destruct (lex_ltb b a) eqn:E; [|reflexivity].
  apply lex_ltb_iff in E. destruct (lex_lt_asym _ _ H E).
Qed.

Theorem le_iff_lt_or_eq : forall a b, str_le a b = Some true <-> (str_lt a b = Some true \/ a = b).
Proof. intros a b. rewrite str_le_true_iff, str_lt_true_iff. reflexivity. Qed.

Theorem le_refl : forall a, str_le a a = Some true.
Proof. intros a. apply le_iff_lt_or_eq. right; reflexivity. Qed.

Theorem le_antisym : forall a b, str_le a b = Some true -> str_le b a = Some true -> a = b.
Proof.
  intros a b. rewrite !str_le_true_iff. intros [H1|H1] [H2|H2]; auto.
  destruct (lex_lt_asym _ _ H1 H2).
Qed.

Theorem le_trans : forall a b c, str_le a b = Some true -> str_le b c = Some true -> str_le a c = Some true.
Proof.
  intros a b c. rewrite !str_le_true_iff. intros [H1|H1] [H2|H2]; subst.
  - left; eapply lex_lt_trans; eassumption.
  - left; assumption.
  - left; assumption.
  - right; reflexivity.
Qed.

Theorem le_total : forall a b, str_le a b = Some true \/ str_le b a = Some true.
Proof.
  intros a b. rewrite !str_le_true_iff. unfold lex_le.
  destruct (lex_lt_total a b) as [H|[H|H]]; auto.
Qed.

(* strict and non-strict order are complements of each other with the arguments swapped *)
Theorem lt_iff_not_ge : forall a b, str_lt a b = Some true <-> str_le b a = Some false.
Proof.
  intros a b. rewrite str_lt_true_iff, str_le_leb. split.
  - intros H. f_equal. destruct (lex_leb b a) eqn:E; [|reflexivity].
    apply lex_leb_iff in E. destruct E as [E|E].
    + destruct (lex_lt_asym _ _ H E).
    + subst. destruct (lex_lt_irrefl _ H).
  - intros H. destruct (lex_lt_total a b) as [T|[T|T]]; [assumption| |].
    + subst. assert (E : lex_leb b b = true) by (apply lex_leb_iff; right; reflexivity).
      rewrite E in H. discriminate.
    + assert (E : lex_leb b a = true) by (apply lex_leb_iff; left; assumption).
      rewrite E in H. discriminate.
Qed.

Theorem prefix_le : forall v u, str_le v (v ++ u) = Some true.
Proof. intros v u. apply str_le_true_iff. apply lex_le_prefix. Qed.

Theorem strict_prefix_lt : forall v u, u <> [] -> str_lt v (v ++ u) = Some true.
Proof. intros v u H. apply str_lt_true_iff. apply lex_lt_strict_prefix; assumption. Qed.

(* ================================================================== decimal numerals: spec *)
Definition is_digit_code (d : N) : Prop := 48 <= d <= 57.
Definition all_digits (w : word) : Prop := Forall is_digit_code w.
Definition digit_val (d : N) : Z := (Z.of_N d - 48)%Z.
(* Horner evaluation, most significant digit first *)
Definition dec_value_from (x : Z) (w : word) : Z := fold_left (fun acc d => (10 * acc + digit_val d)%Z) w x.
Definition dec_value (w : word) : Z := dec_value_from 0 w.
(* a decimal numeral without leading zeros ("0" itself is one) *)
Definition numeral (w : word) : Prop := w <> [] /\ all_digits w /\ (w = [48] \/ hd 0 w <> 48).

Lemma char_is_digit_iff d : char_is_digit d = true <-> is_digit_code d.
Proof.
  unfold char_is_digit, is_digit_code. rewrite andb_true_iff, !N.leb_le. reflexivity.
Qed.

Lemma forallb_digits w : forallb char_is_digit w = true <-> all_digits w.
Proof.
  unfold all_digits. rewrite forallb_forall, Forall_forall.
  split; intros H x Hx; apply char_is_digit_iff; auto.
Qed.

Lemma dec_value_from_snoc x w d : dec_value_from x (w ++ [d]) = (10 * dec_value_from x w + digit_val d)%Z.
Proof. unfold dec_value_from. rewrite fold_left_app. reflexivity. Qed.

(* the two textbook readings of "decimal value" *)
Lemma dec_value_nil : dec_value [] = 0%Z.
Proof. reflexivity. Qed.

Lemma dec_value_snoc w d : dec_value (w ++ [d]) = (10 * dec_value w + digit_val d)%Z.
Proof. apply dec_value_from_snoc. Qed.

Lemma dec_value_from_pow w : forall x,
  dec_value_from x w = (x * 10 ^ Z.of_nat (length w) + dec_value w)%Z.
Proof.
  induction w as [|d w IH]; intros x.
  - cbn [length Z.of_nat]. unfold dec_value, dec_value_from. cbn [fold_left]. rewrite Z.pow_0_r. lia.
  - change (dec_value_from x (d :: w)) with (dec_value_from (10 * x + digit_val d) w).
    change (dec_value (d :: w)) with (dec_value_from (10 * 0 + digit_val d) w).
    rewrite (IH (10 * x + digit_val d)%Z), (IH (10 * 0 + digit_val d)%Z).
    cbn [length]. rewrite Nat2Z.inj_succ, Z.pow_succ_r by lia. ring.
Qed.

Lemma dec_value_cons d w : dec_value (d :: w) = (digit_val d * 10 ^ Z.of_nat (length w) + dec_value w)%Z.
Proof.
  change (dec_value (d :: w)) with (dec_value_from (10 * 0 + digit_val d) w).
  rewrite dec_value_from_pow. lia.
Qed.

Lemma digit_val_range d : is_digit_code d -> (0 <= digit_val d <= 9)%Z.
Proof. unfold is_digit_code, digit_val. lia. Qed.

Lemma dec_value_from_ge w : forall x, all_digits w -> (0 <= x)%Z -> (x <= dec_value_from x w)%Z.
Proof.
  induction w as [|d w IH]; intros x Hw Hx.
  - unfold dec_value_from; cbn [fold_left]; lia.
  - inversion Hw as [|d' w' Hd Hw']; subst.
    change (dec_value_from x (d :: w)) with (dec_value_from (10 * x + digit_val d) w).
    pose proof (digit_val_range d Hd) as Hr.
    pose proof (IH (10 * x + digit_val d)%Z Hw' ltac:(lia)). lia.
Qed.

Lemma dec_value_bounds w : all_digits w -> (0 <= dec_value w < 10 ^ Z.of_nat (length w))%Z.
Proof.
  induction w as [|d w IH] using rev_ind; intros Hw.
  - cbn. lia.
  - apply Forall_app in Hw. destruct Hw as [Hw Hd]. inversion Hd as [|d' t Hd' _]; subst.
    rewrite dec_value_snoc, app_length. cbn [length].
    replace (length w + 1)%nat with (S (length w)) by lia.
    rewrite Nat2Z.inj_succ, Z.pow_succ_r by lia.
    pose proof (digit_val_range d Hd'). specialize (IH Hw). lia.
Qed.

(* ================================================================== str_to_int *)
Lemma in_i32_nonneg z : (0 <= z)%Z -> in_i32 z = (z <=? I32MAX)%Z.
Proof.
  intros Hz. unfold in_i32, I32MIN.
  replace (-2147483648 <=? z)%Z with true by (symmetry; apply Z.leb_le; lia). reflexivity.
Qed.

Lemma to_int_loop_spec w : forall x, all_digits w -> (0 <= x <= I32MAX)%Z ->
  to_int_loop w x = if (dec_value_from x w <=? I32MAX)%Z then Some (dec_value_from x w) else None.
Proof.
  induction w as [|d w IH]; intros x Hw Hx.
  - unfold dec_value_from; cbn [to_int_loop fold_left].
    replace (x <=? I32MAX)%Z with true by (symmetry; apply Z.leb_le; lia). reflexivity.
  - inversion Hw as [|d' w' Hd Hw']; subst.
    pose proof (digit_val_range d Hd) as Hr.
    change (dec_value_from x (d :: w)) with (dec_value_from (10 * x + digit_val d) w).
    pose proof (dec_value_from_ge w (10 * x + digit_val d)%Z Hw' ltac:(lia)) as Hge.
    cbn [to_int_loop]. unfold checked_mul_i32, checked_add_i32.
    fold (digit_val d).
    rewrite in_i32_nonneg by lia.
    destruct (Z.leb_spec (x * 10) I32MAX) as [H1|H1]; cbn [bind].
    + rewrite in_i32_nonneg by lia.
      destruct (Z.leb_spec (x * 10 + digit_val d) I32MAX) as [H2|H2]; cbn [bind].
      * replace (x * 10 + digit_val d)%Z with (10 * x + digit_val d)%Z by lia.
        apply IH; [assumption | lia].
      * replace (dec_value_from (10 * x + digit_val d) w <=? I32MAX)%Z with false
          by (symmetry; apply Z.leb_gt; lia). reflexivity.
    + replace (dec_value_from (10 * x + digit_val d) w <=? I32MAX)%Z with false
        by (symmetry; apply Z.leb_gt; lia). reflexivity.
Qed.

(* str.to_int, with the documented panic when the value does not fit in i32 *)
Theorem to_int_spec : forall w,
  (w <> [] -> all_digits w ->
     str_to_int w = if (dec_value w <=? I32MAX)%Z then Some (dec_value w) else None) /\
  (w = [] \/ ~ all_digits w -> str_to_int w = Some (-1)%Z).
Proof.
  intros w. unfold str_to_int. split.
  - intros Hne Hw. destruct w as [|d w]; [congruence|].
    replace (forallb char_is_digit (d :: w)) with true by (symmetry; apply forallb_digits; assumption).
    cbn [negb orb]. apply to_int_loop_spec; [assumption | unfold I32MAX; lia].
  - intros [H|H].
    + subst. reflexivity.
    + destruct w as [|d w]; [reflexivity|].
      destruct (forallb char_is_digit (d :: w)) eqn:E; [|reflexivity].
      apply forallb_digits in E. contradiction.
Qed.

Lemma all_digits_dec w : all_digits w \/ ~ all_digits w.
Proof.
  destruct (forallb char_is_digit w) eqn:E.
  - left; apply forallb_digits; assumption.
  - right; intros H; apply forallb_digits in H; congruence.
Qed.

(* whatever number is returned is the right one *)
Theorem to_int_never_wrong : forall w r, str_to_int w = Some r ->
  (w <> [] /\ all_digits w /\ r = dec_value w /\ (0 <= r <= I32MAX)%Z) \/
  ((w = [] \/ ~ all_digits w) /\ r = (-1)%Z).
Proof.
  intros w r H. destruct (to_int_spec w) as [S1 S2].
  destruct w as [|d w].
  - right. rewrite S2 in H by (left; reflexivity). split; [left; reflexivity | congruence].
  - destruct (all_digits_dec (d :: w)) as [D|D].
    + left. rewrite S1 in H by (assumption || discriminate).
      destruct (Z.leb_spec (dec_value (d :: w)) I32MAX) as [L|L]; [|discriminate].
      injection H as <-. pose proof (dec_value_bounds _ D).
      repeat split; (assumption || discriminate || lia).
    + right. rewrite S2 in H by (right; assumption). split; [right; assumption | congruence].
Qed.

(* the panic happens exactly when the documented condition holds *)
Theorem to_int_panic_iff : forall w,
  str_to_int w = None <-> (w <> [] /\ all_digits w /\ (I32MAX < dec_value w)%Z).
Proof.
  intros w. destruct (to_int_spec w) as [S1 S2]. split.
  - intros H. destruct w as [|d w]; [rewrite S2 in H by (left; reflexivity); discriminate|].
    destruct (all_digits_dec (d :: w)) as [D|D].
    + rewrite S1 in H by (assumption || discriminate).
      destruct (Z.leb_spec (dec_value (d :: w)) I32MAX) as [L|L]; [discriminate|].
      repeat split; (assumption || discriminate).
    + rewrite S2 in H by (right; assumption). discriminate.
  - intros (Hne & D & L). rewrite S1 by assumption.
    replace (dec_value w <=? I32MAX)%Z with false by (symmetry; apply Z.leb_gt; lia). reflexivity.
Qed.

(* ================================================================== str_from_int *)
Lemma pos_lt_pow2_size p : (Zpos p < 2 ^ Z.of_nat (Pos.size_nat p))%Z.
Proof.
  induction p as [p IH|p IH|]; cbn [Pos.size_nat]; rewrite ?Nat2Z.inj_succ, ?Z.pow_succ_r by lia.
  - rewrite Pos2Z.inj_xI. lia.
  - rewrite Pos2Z.inj_xO. lia.
  - cbn. lia.
Qed.

Lemma dec_fuel_ok n : (0 <= n)%Z -> (n < 10 ^ Z.of_nat (dec_fuel n))%Z /\ dec_fuel n <> 0%nat.
Proof.
  intros Hn. destruct n as [|p|p]; cbn [dec_fuel].
  - split; [cbn; lia | discriminate].
  - split.
    + pose proof (pos_lt_pow2_size p) as H.
      assert (2 ^ Z.of_nat (Pos.size_nat p) <= 10 ^ Z.of_nat (Pos.size_nat p))%Z
        by (apply Z.pow_le_mono_l; lia). lia.
    + destruct p; cbn [Pos.size_nat]; discriminate.
  - lia.
Qed.

Lemma hd_app_ne (u t : word) : u <> [] -> hd 0 (u ++ t) = hd 0 u.
Proof. destruct u; [congruence | reflexivity]. Qed.

Lemma dec_digits_spec fuel : forall n acc, fuel <> 0%nat -> (0 <= n < 10 ^ Z.of_nat fuel)%Z ->
  exists ds, dec_digits fuel n acc = Some (ds ++ acc) /\ ds <> [] /\ all_digits ds /\
             dec_value ds = n /\ (n = 0%Z -> ds = [48]) /\ ((0 < n)%Z -> hd 0 ds <> 48).
Proof.
  induction fuel as [|f IH]; intros n acc Hf Hn; [congruence|].
  cbn [dec_digits].
  assert (Hm : (0 <= n mod 10 < 10)%Z) by (apply Z.mod_pos_bound; lia).
  set (d0 := Z.to_N (48 + n mod 10)).
  assert (Hd0 : is_digit_code d0) by (unfold is_digit_code, d0; lia).
  assert (Hv0 : digit_val d0 = (n mod 10)%Z) by (unfold digit_val, d0; rewrite Z2N.id; lia).
  destruct (Z.ltb_spec n 10) as [L|L].
  - exists [d0]. rewrite Z.mod_small in Hv0 by lia.
    repeat split.
    + discriminate.
    + constructor; [assumption | constructor].
    + unfold dec_value, dec_value_from. cbn [fold_left]. lia.
    + intros ->. unfold d0. reflexivity.
    + intros Hp. cbn [hd]. unfold d0. rewrite Z.mod_small by lia. lia.
  - assert (Hf' : f <> 0%nat).
    { intros ->. cbn in Hn. lia. }
    assert (Hq : (0 <= n / 10 < 10 ^ Z.of_nat f)%Z).
    { rewrite Nat2Z.inj_succ, Z.pow_succ_r in Hn by lia. split.
      - apply Z.div_pos; lia.
      - apply Z.div_lt_upper_bound; lia. }
    assert (Hq1 : (0 < n / 10)%Z) by (apply Z.div_str_pos; lia).
    destruct (IH (n / 10)%Z (d0 :: acc) Hf' Hq) as (ds & E & Hne & Hall & Hval & _ & Hhd).
    exists (ds ++ [d0]). repeat split.
    + rewrite E. f_equal. rewrite <- app_assoc. reflexivity.
    + intros H. apply app_eq_nil in H. destruct H; discriminate.
    + apply Forall_app. split; [assumption | constructor; [assumption | constructor]].
    + rewrite dec_value_snoc, Hval, Hv0. pose proof (Z.div_mod n 10 ltac:(lia)). lia.
    + intros ->. lia.
    + intros _. rewrite hd_app_ne by assumption. apply Hhd; assumption.
Qed.

(* str.from_int: the decimal numeral of n without leading zeros for n >= 0, "" for n < 0 *)
Theorem from_int_spec : forall n,
  ((0 <= n)%Z -> exists w, str_from_int n = Some w /\ numeral w /\ dec_value w = n) /\
  ((n < 0)%Z -> str_from_int n = Some []).
Proof.
  intros n. unfold str_from_int. split.
  - intros Hn. replace (0 <=? n)%Z with true by (symmetry; apply Z.leb_le; lia).
    destruct (dec_fuel_ok n Hn) as [Hlt Hne].
    destruct (dec_digits_spec (dec_fuel n) n [] Hne ltac:(lia)) as (ds & E & Hds & Hall & Hval & Hz & Hp).
    rewrite app_nil_r in E. exists ds. split; [assumption|]. split; [|assumption].
    split; [assumption|]. split; [assumption|].
    destruct (Z.eq_dec n 0) as [->|Hn0]; [left; auto | right; apply Hp; lia].
  - intros Hn. replace (0 <=? n)%Z with false by (symmetry; apply Z.leb_gt; lia). reflexivity.
Qed.

(* a numeral is determined by its value, so from_int_spec has exactly one solution *)
Lemma same_length_same_value u : forall w, length u = length w -> all_digits u -> all_digits w ->
  dec_value u = dec_value w -> u = w.
Proof.
  induction u as [|a u IH] using rev_ind; intros w Hl Hu Hw Hv.
  - destruct w; [reflexivity | discriminate].
  - destruct (exists_last (l := w)) as (w' & b & ->).
    { intros ->. rewrite app_length in Hl. cbn in Hl. lia. }
    rewrite !app_length in Hl. cbn [length] in Hl.
    apply Forall_app in Hu. destruct Hu as [Hu Ha]. inversion Ha as [|a' t Ha' _]; subst.
    apply Forall_app in Hw. destruct Hw as [Hw Hb]. inversion Hb as [|b' t Hb' _]; subst.
    rewrite !dec_value_snoc in Hv.
    pose proof (digit_val_range a Ha'). pose proof (digit_val_range b Hb').
    assert (dec_value u = dec_value w') by lia.
    assert (digit_val a = digit_val b) by lia.
    assert (a = b) by (unfold digit_val in *; lia). subst b.
    f_equal. apply IH; (assumption || lia).
Qed.

Lemma numeral_lower d t : all_digits (d :: t) -> d <> 48 ->
  (10 ^ Z.of_nat (length t) <= dec_value (d :: t))%Z.
Proof.
  intros H Hd. inversion H as [|d' t' Hd' Ht]; subst.
  rewrite dec_value_cons. pose proof (dec_value_bounds t Ht).
  assert (1 <= digit_val d)%Z by (unfold digit_val, is_digit_code in *; lia).
  assert (0 < 10 ^ Z.of_nat (length t))%Z by (apply Z.pow_pos_nonneg; lia). nia.
Qed.

Lemma numeral_positive w : numeral w -> w <> [48] -> (10 ^ Z.of_nat (length w - 1) <= dec_value w)%Z.
Proof.
  intros (Hne & Hall & Hc) H48. destruct Hc as [Hc|Hc]; [contradiction|].
  destruct w as [|d t]; [congruence|]. cbn [hd] in Hc.
  cbn [length]. replace (S (length t) - 1)%nat with (length t) by lia.
  apply numeral_lower; assumption.
Qed.

Theorem numeral_unique : forall u w, numeral u -> numeral w -> dec_value u = dec_value w -> u = w.
Proof.
  assert (Z0 : forall u w, numeral u -> numeral w -> dec_value u = dec_value w -> u = [48] -> w = [48]).
  { intros u w Hu Hw Hv ->.
    destruct (list_eq_dec N.eq_dec w [48]) as [E|E]; [assumption|].
    pose proof (numeral_positive w Hw E) as Hp.
    assert (0 < 10 ^ Z.of_nat (length w - 1))%Z by (apply Z.pow_pos_nonneg; lia).
    change (dec_value [48]) with 0%Z in Hv. lia. }
  intros u w Hu Hw Hv.
  destruct (list_eq_dec N.eq_dec u [48]) as [Eu|Eu].
  { rewrite (Z0 u w Hu Hw Hv Eu). assumption. }
  destruct (list_eq_dec N.eq_dec w [48]) as [Ew|Ew].
  { rewrite (Z0 w u Hw Hu (eq_sym Hv) Ew). symmetry; assumption. }
  pose proof (numeral_positive u Hu Eu) as Lu. pose proof (numeral_positive w Hw Ew) as Lw.
  destruct Hu as (Hune & Hua & _). destruct Hw as (Hwne & Hwa & _).
  pose proof (dec_value_bounds u Hua) as Bu. pose proof (dec_value_bounds w Hwa) as Bw.
  assert (Hlen : length u = length w).
  { destruct (Nat.lt_trichotomy (length u) (length w)) as [H|[H|H]]; [exfalso|assumption|exfalso].
    - assert (10 ^ Z.of_nat (length u) <= 10 ^ Z.of_nat (length w - 1))%Z
        by (apply Z.pow_le_mono_r; lia). lia.
    - assert (10 ^ Z.of_nat (length w) <= 10 ^ Z.of_nat (length u - 1))%Z
        by (apply Z.pow_le_mono_r; lia). lia. }
  apply same_length_same_value; assumption.
Qed.

Theorem from_int_unique : forall n w, (0 <= n)%Z -> numeral w -> dec_value w = n ->
  str_from_int n = Some w.
Proof.
  intros n w Hn Hw Hv. destruct (from_int_spec n) as [S1 _].
  destruct (S1 Hn) as (w' & E & Hw' & Hv'). rewrite E. f_equal.
  apply numeral_unique; (assumption || congruence).
Qed.

(* to_int (from_int n) = n for every representable n >= 0 *)
Theorem to_int_from_int : forall n, (0 <= n <= I32MAX)%Z ->
  (do w <- str_from_int n; str_to_int w) = Some n.
Proof.
  intros n Hn. destruct (from_int_spec n) as [S1 _].
  destruct (S1 ltac:(lia)) as (w & E & (Hne & Hall & _) & Hv). rewrite E. cbn [bind].
  destruct (to_int_spec w) as [T _]. rewrite T by assumption. rewrite Hv.
  replace (n <=? I32MAX)%Z with true by (symmetry; apply Z.leb_le; lia). reflexivity.
Qed.

(* from_int (to_int s) = s for every numeral s that fits *)
Theorem from_int_to_int : forall w n, numeral w -> str_to_int w = Some n -> str_from_int n = Some w.
Proof.
  intros w n Hw H. destruct (to_int_never_wrong w n H) as [(Hne & Hall & Hv & Hr)|(Hc & _)].
  - apply from_int_unique; [lia | assumption | congruence].
  - destruct Hw as (Hne & Hall & _). destruct Hc; contradiction.
Qed.

(* ================================================================== codes and digits *)
Lemma u32_as_i32_small c : c < 2147483648 -> u32_as_i32 c = Z.of_N c.
Proof.
  intros H. unfold u32_as_i32, wrap_i32. rewrite Z.mod_small by lia. lia.
Qed.

Lemma good_small c : good c -> c < 2147483648.
Proof. unfold good, MAXC. lia. Qed.

(* str.to_code: the code point of a one-character string, -1 otherwise; never panics *)
Theorem to_code_spec : forall w,
  (forall c, w = [c] -> c < 2147483648 -> str_to_code w = Some (Z.of_N c)) /\
  (length w <> 1%nat -> str_to_code w = Some (-1)%Z).
Proof.
  intros w. unfold str_to_code. split.
  - intros c -> Hc. cbn [length Nat.eqb nth_error bind]. rewrite u32_as_i32_small by assumption. reflexivity.
  - intros H. replace (length w =? 1)%nat with false by (symmetry; apply Nat.eqb_neq; assumption). reflexivity.
Qed.

(* str.from_code: one character for 0 <= x <= 0x2FFFF, "" otherwise *)
Theorem from_code_range : forall x,
  ((0 <= x <= Z.of_N MAXC)%Z -> str_from_code x = [Z.to_N x]) /\
  ((x < 0 \/ Z.of_N MAXC < x)%Z -> str_from_code x = []).
Proof.
  intros x. unfold str_from_code, smt_of_u32. split.
  - intros H. replace ((0 <=? x) && (x <=? Z.of_N MAXC))%Z with true
      by (symmetry; apply andb_true_iff; rewrite !Z.leb_le; lia).
    replace (Z.to_N x <=? MAXC) with true by (symmetry; apply N.leb_le; lia). reflexivity.
  - intros H. replace ((0 <=? x) && (x <=? Z.of_N MAXC))%Z with false; [reflexivity|].
    symmetry. apply andb_false_iff. rewrite !Z.leb_gt. lia.
Qed.

Theorem to_code_from_code : forall x, (0 <= x <= Z.of_N MAXC)%Z -> str_to_code (str_from_code x) = Some x.
Proof.
  intros x H. destruct (from_code_range x) as [R _]. rewrite (R H).
  destruct (to_code_spec [Z.to_N x]) as [T _].
  rewrite (T (Z.to_N x) eq_refl) by (unfold MAXC in H; lia). f_equal. lia.
Qed.

Theorem from_code_to_code : forall c, good c ->
  (do x <- str_to_code [c]; Some (str_from_code x)) = Some [c].
Proof.
  intros c Hc. destruct (to_code_spec [c]) as [T _].
  rewrite (T c eq_refl (good_small c Hc)). cbn [bind]. f_equal.
  destruct (from_code_range (Z.of_N c)) as [R _]. rewrite R by (unfold good in Hc; lia).
  rewrite N2Z.id. reflexivity.
Qed.

(* str.is_digit: exactly the one-character strings '0'..'9'; never panics *)
Theorem is_digit_spec : forall w, exists b, str_is_digit w = Some b /\
  (b = true <-> exists c, w = [c] /\ 48 <= c <= 57).
Proof.
  intros w. unfold str_is_digit. destruct w as [|c [|d t]]; cbn [length Nat.eqb nth_error bind].
  - exists false. split; [reflexivity|]. split; [discriminate | intros (c & H & _); discriminate].
  - exists (char_is_digit c). split; [reflexivity|]. rewrite char_is_digit_iff. split.
    + intros H. exists c. split; [reflexivity | exact H].
    + intros (c' & H & Hc). injection H as ->. exact Hc.
  - exists false. split; [reflexivity|]. split; [discriminate | intros (c' & H & _); discriminate].
Qed.

(* ================================================================== goodness of results (for C17) *)
Theorem str_from_code_good : forall x, goodw (str_from_code x).
Proof.
  intros x. unfold str_from_code, smt_of_u32.
  destruct ((0 <=? x) && (x <=? Z.of_N MAXC))%Z; [|constructor].
  constructor; [|constructor].
  destruct (N.leb_spec (Z.to_N x) MAXC) as [H|H]; unfold good; [assumption | unfold REPLC, MAXC; lia].
Qed.

Lemma all_digits_good w : all_digits w -> goodw w.
Proof.
  unfold all_digits, goodw. apply Forall_impl. intros d H. unfold is_digit_code in H. unfold good, MAXC. lia.
Qed.

Theorem str_from_int_good : forall n w, str_from_int n = Some w -> goodw w.
Proof.
  intros n w H. destruct (from_int_spec n) as [S1 S2].
  destruct (Z.le_gt_cases 0 n) as [Hn|Hn].
  - destruct (S1 Hn) as (w' & E & (_ & Hall & _) & _). rewrite E in H. injection H as <-.
    apply all_digits_good; assumption.
  - rewrite S2 in H by lia. injection H as <-. constructor.
Qed.

(* ================================================================== D5: what the pinned code did *)
(* "5000000000", "99999999999a", "2147483648" *)
Definition D5_w1 : word := [53;48;48;48;48;48;48;48;48;48].
Definition D5_w2 : word := [57;57;57;57;57;57;57;57;57;57;57;97].
Definition D5_w3 : word := [50;49;52;55;52;56;51;54;52;56].

Lemma D5_witness :
  (* release build of the pinned code: a wrong number; repaired code: the documented panic *)
  pinned_to_int_release D5_w1 = Some 705032704%Z /\ dec_value D5_w1 = 5000000000%Z /\ str_to_int D5_w1 = None /\
  (* pinned code (any build): panic before the non-digit is seen; repaired code / SMT-LIB: -1 *)
  pinned_to_int_release D5_w2 = None /\ str_to_int D5_w2 = Some (-1)%Z /\
  (* 2^31 itself wraps to a negative number, which the y < x test does catch *)
  pinned_to_int_release D5_w3 = None /\ str_to_int D5_w3 = None.
Proof. vm_compute. repeat split; reflexivity. Qed.
