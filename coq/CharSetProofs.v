(* CharSetProofs.v -- C20: CharSet operations are exact interval algebra. *)
Require Import Base CharSet.
Open Scope N_scope.

Ltac unf := unfold cs_valid, mem, cs_contains, cs_covers, cs_is_before, cs_is_after,
  cs_is_singleton, cs_is_alphabet, cs_pick, cs_inter, cs_eqb, cs_pcmp, sub32, add32,
  MAXC, U32MAX, bind in *; simpl fst in *; simpl snd in *.

Ltac bdestr :=
  repeat match goal with
  | |- context [?a <=? ?b] => destruct (N.leb_spec a b)
  | |- context [?a <? ?b] => destruct (N.ltb_spec a b)
  | |- context [?a =? ?b] => destruct (N.eqb_spec a b)
  | H : context [?a <=? ?b] |- _ => destruct (N.leb_spec a b)
  | H : context [?a <? ?b] |- _ => destruct (N.ltb_spec a b)
  | H : context [?a =? ?b] |- _ => destruct (N.eqb_spec a b)
  end.

Lemma cs_validb_iff s : cs_validb s = true <-> cs_valid s.
Proof. unfold cs_validb, cs_valid. rewrite andb_true_iff, !N.leb_le. tauto. Qed.

Lemma contains_iff s x : cs_contains s x = true <-> mem x s.
Proof. destruct s as [a b]; unf. rewrite andb_true_iff, !N.leb_le. tauto. Qed.

Lemma covers_iff s o : cs_valid o ->
  (cs_covers s o = true <-> forall x, mem x o -> mem x s).
Proof.
  destruct s as [a b], o as [c d]; unf. intros [Hv _].
  rewrite andb_true_iff, !N.leb_le. split.
  - intros [H1 H2] x [H3 H4]. lia.
  - intros H. pose proof (H c ltac:(lia)). pose proof (H d ltac:(lia)). lia.
Qed.

Lemma before_iff s x : cs_valid s ->
  (cs_is_before s x = true <-> forall y, mem y s -> y < x).
Proof.
  destruct s as [a b]; unf. intros [Hv _]. rewrite N.ltb_lt. split.
  - intros H y [H1 H2]. lia.
  - intros H. apply H. lia.
Qed.

Lemma after_iff s x : cs_valid s ->
  (cs_is_after s x = true <-> forall y, mem y s -> x < y).
Proof.
  destruct s as [a b]; unf. intros [Hv _]. rewrite N.ltb_lt. split.
  - intros H y [H1 H2]. lia.
  - intros H. apply H. lia.
Qed.

(* size: no underflow, no overflow, and the value is the number of members *)
Lemma size_value s : cs_valid s -> cs_size s = Some (snd s - fst s + 1).
Proof.
  destruct s as [a b]; unfold cs_size; unf. intros [H1 H2].
  destruct (N.leb_spec a b); [|lia]. simpl.
  destruct (N.leb_spec (b - a + 1) 4294967295); [reflexivity|lia].
Qed.

(* the members of [a,b] are exactly a, a+1, ..., a + (size-1): a bijection with [0,size) *)
Lemma size_card s n : cs_valid s -> cs_size s = Some n ->
  (forall x, mem x s <-> exists k, k < n /\ x = fst s + k).
Proof.
  intros Hv Hs. rewrite (size_value s Hv) in Hs. injection Hs as <-.
  destruct s as [a b]; unf. destruct Hv as [Hv _]. intros x. split.
  - intros [H1 H2]. exists (x - a). lia.
  - intros [k [Hk ->]]. lia.
Qed.

Lemma singleton_iff s : cs_valid s ->
  (cs_is_singleton s = true <-> forall x y, mem x s -> mem y s -> x = y).
Proof.
  destruct s as [a b]; unf. intros [Hv _]. rewrite N.eqb_eq. split.
  - intros -> x y [? ?] [? ?]. lia.
  - intros H. apply H; lia.
Qed.

Lemma alphabet_iff s : cs_valid s ->
  (cs_is_alphabet s = true <-> forall x, good x -> mem x s).
Proof.
  destruct s as [a b]; unfold good; unf. intros [Hv Hm].
  rewrite andb_true_iff, !N.eqb_eq. split.
  - intros [-> ->] x Hx. lia.
  - intros H. pose proof (H 0 ltac:(lia)). pose proof (H 196607 ltac:(lia)). lia.
Qed.

Lemma pick_mem s : cs_valid s -> mem (cs_pick s) s.
Proof. destruct s as [a b]; unf. intros [? ?]. lia. Qed.

Lemma inter_some s o r : cs_inter s o = Some r ->
  (forall x, mem x r <-> mem x s /\ mem x o).
Proof.
  destruct s as [a b], o as [c d]; unf.
  destruct (N.leb_spec (N.max a c) (N.min b d)); [|discriminate].
  intros [= <-] x. simpl. lia.
Qed.

Lemma inter_some_valid s o r : cs_valid s -> cs_valid o -> cs_inter s o = Some r -> cs_valid r.
Proof.
  destruct s as [a b], o as [c d]; unf.
  destruct (N.leb_spec (N.max a c) (N.min b d)); [|discriminate].
  intros [? ?] [? ?] [= <-]. simpl. lia.
Qed.

Lemma inter_none s o : cs_inter s o = None <-> (forall x, ~ (mem x s /\ mem x o)).
Proof.
  destruct s as [a b], o as [c d]; unf.
  destruct (N.leb_spec (N.max a c) (N.min b d)); split; try discriminate; try reflexivity.
  - intros Hn. exfalso. apply (Hn (N.max a c)). lia.
  - intros _ x. lia.
Qed.

Lemma inter_fold_some r l q : cs_inter_fold r l = Some q ->
  forall x, mem x q <-> mem x r /\ Forall (mem x) l.
Proof.
  revert r; induction l as [|s t IH]; intros r H x; cbn [cs_inter_fold] in H.
  - injection H as <-. split; [intros ?; split; [assumption|constructor]|tauto].
  - destruct (cs_inter r s) as [y|] eqn:E; [|discriminate].
    rewrite (IH _ H x), (inter_some _ _ _ E x). split.
    + intros [[? ?] ?]. split; [assumption|constructor; assumption].
    + intros [? Hf]. inversion Hf; subst. tauto.
Qed.

Lemma inter_fold_none r l : cs_inter_fold r l = None ->
  forall x, ~ (mem x r /\ Forall (mem x) l).
Proof.
  revert r; induction l as [|s t IH]; intros r H x; cbn [cs_inter_fold] in H; [discriminate|].
  destruct (cs_inter r s) as [y|] eqn:E.
  - intros [Hr Hf]. inversion Hf; subst. apply (IH _ H x). split; [|assumption].
    apply (inter_some _ _ _ E x). tauto.
  - intros [Hr Hf]. inversion Hf; subst. apply (proj1 (inter_none r s) E x). tauto.
Qed.

(* inter_list: the result is the set of good characters that belong to every interval
   (neutral element: the full alphabet); None iff no good character is in all of them. *)
Lemma inter_list_some a q : cs_inter_list a = Some q ->
  forall x, good x -> (mem x q <-> Forall (mem x) a).
Proof.
  destruct a as [|s t]; cbn [cs_inter_list]; intros H x Hx.
  - injection H as <-. unfold cs_all, good in *; unf. split; [constructor|lia].
  - rewrite (inter_fold_some _ _ _ H x). split.
    + intros [? ?]; constructor; assumption.
    + intros Hf; inversion Hf; tauto.
Qed.

Lemma inter_list_none a : cs_inter_list a = None -> forall x, ~ Forall (mem x) a.
Proof.
  destruct a as [|s t]; cbn [cs_inter_list]; intros H x; [discriminate|].
  intros Hf. inversion Hf; subst. apply (inter_fold_none _ _ H x). tauto.
Qed.

Lemma inter_fold_valid t : Forall cs_valid t ->
  forall s q, cs_valid s -> cs_inter_fold s t = Some q -> cs_valid q.
Proof.
  induction 1 as [|u t Hu Ht IH]; intros s q Hs H; cbn [cs_inter_fold] in H.
  - injection H as <-. assumption.
  - destruct (cs_inter s u) as [y|] eqn:E; [|discriminate].
    apply (IH y q); [|assumption]. exact (inter_some_valid s u y Hs Hu E).
Qed.

Lemma inter_list_valid a q : Forall cs_valid a -> cs_inter_list a = Some q -> cs_valid q.
Proof.
  destruct a as [|s t]; cbn [cs_inter_list]; intros Hv H.
  - injection H as <-. unfold cs_all; unf. lia.
  - inversion Hv as [|? ? Hs Ht]; subst. eapply inter_fold_valid; eauto.
Qed.

(* union *)
Lemma union_total s o : exists r, cs_union s o = Some r.
Proof.
  destruct s as [a b], o as [c d]; unfold cs_union; unf.
  destruct (N.eqb_spec a c); simpl; [eauto|].
  destruct (N.ltb_spec a c); simpl.
  - destruct (N.leb_spec 1 c); [|lia]. simpl.
    destruct (c - 1 <=? b); simpl; [eauto|].
    destruct (N.ltb_spec c a); [lia|]. simpl. eauto.
  - destruct (N.ltb_spec c a); [|lia]. simpl.
    destruct (N.leb_spec 1 a); [|lia]. simpl.
    destruct (a - 1 <=? d); simpl; eauto.
Qed.

Definition is_union (s o r : cs) : Prop := forall x, mem x r <-> mem x s \/ mem x o.

Lemma union_some s o r : cs_valid s -> cs_valid o -> cs_union s o = Some (Some r) ->
  cs_valid r /\ is_union s o r.
Proof.
  destruct s as [a b], o as [c d]; unfold cs_union, is_union; unf. intros [H1 H2] [H3 H4].
  destruct (N.eqb_spec a c); simpl.
  - intros [= <-]. simpl. split; [lia|]. intros x. lia.
  - destruct (N.ltb_spec a c); simpl.
    + destruct (N.leb_spec 1 c); [|lia]. simpl.
      destruct (N.leb_spec (c - 1) b); simpl.
      * intros [= <-]. simpl. split; [lia|]. intros x. lia.
      * destruct (N.ltb_spec c a); [lia|]. simpl. discriminate.
    + destruct (N.ltb_spec c a); [|lia]. simpl.
      destruct (N.leb_spec 1 a); [|lia]. simpl.
      destruct (N.leb_spec (a - 1) d); simpl; [|discriminate].
      intros [= <-]. simpl. split; [lia|]. intros x. lia.
Qed.

Lemma union_none s o : cs_valid s -> cs_valid o -> cs_union s o = Some None ->
  forall r, ~ is_union s o r.
Proof.
  destruct s as [a b], o as [c d]; unfold cs_union, is_union; unf. intros [H1 H2] [H3 H4].
  destruct (N.eqb_spec a c); simpl; [discriminate|].
  destruct (N.ltb_spec a c); simpl.
  - destruct (N.leb_spec 1 c); [|lia]. simpl.
    destruct (N.leb_spec (c - 1) b); simpl; [discriminate|].
    intros _ [e f] Hu; simpl in Hu.
    (* b+1 is in the gap between the two intervals *)
    pose proof (proj2 (Hu a) ltac:(lia)). pose proof (proj2 (Hu d) ltac:(lia)).
    pose proof (proj1 (Hu (b + 1)) ltac:(lia)). lia.
  - destruct (N.ltb_spec c a); [|lia]. simpl.
    destruct (N.leb_spec 1 a); [|lia]. simpl.
    destruct (N.leb_spec (a - 1) d); simpl; [discriminate|].
    intros _ [e f] Hu; simpl in Hu.
    pose proof (proj2 (Hu c) ltac:(lia)). pose proof (proj2 (Hu b) ltac:(lia)).
    pose proof (proj1 (Hu (d + 1)) ltac:(lia)). lia.
Qed.

(* two valid intervals with the same members are equal *)
Lemma mem_ext s o : cs_valid s -> cs_valid o -> (forall x, mem x s <-> mem x o) -> s = o.
Proof.
  destruct s as [a b], o as [c d]; unf. intros [Ha Hb] [Hc Hd] H.
  pose proof (proj1 (H a) ltac:(lia)). pose proof (proj1 (H b) ltac:(lia)).
  pose proof (proj2 (H c) ltac:(lia)). pose proof (proj2 (H d) ltac:(lia)).
  f_equal; lia.
Qed.

(* union returns Some exactly when the set union is a (valid) interval, and then that interval *)
Theorem union_some_iff s o : cs_valid s -> cs_valid o ->
  forall r, cs_valid r -> (cs_union s o = Some (Some r) <-> is_union s o r).
Proof.
  intros Hs Ho r Hr. split.
  - intros H. apply (union_some s o r Hs Ho H).
  - intros Hu. destruct (union_total s o) as [[q|] Hq].
    + destruct (union_some s o q Hs Ho Hq) as [Hvq Huq]. rewrite Hq. do 2 f_equal.
      apply mem_ext; auto. intros x. rewrite (Huq x), (Hu x). tauto.
    + exfalso. apply (union_none s o Hs Ho Hq r Hu).
Qed.

(* partial order *)
Lemma pcmp_spec s o : cs_valid s -> cs_valid o ->
  match cs_pcmp s o with
  | OrdEq => s = o
  | OrdLt => s <> o /\ forall x y, mem x s -> mem y o -> x < y
  | OrdGt => s <> o /\ forall x y, mem x s -> mem y o -> y < x
  | OrdNone => s <> o /\ exists x y x' y', mem x s /\ mem y o /\ mem x' s /\ mem y' o /\ x <= y /\ y' <= x'
  end.
Proof.
  destruct s as [a b], o as [c d]; unfold cs_pcmp, cs_eqb, cs_valid, mem; simpl fst; simpl snd.
  intros [H1 H2] [H3 H4].
  assert (Hne : (a =? c) && (b =? d) = false -> (a, b) <> (c, d)).
  { intros Hf [= -> ->]. rewrite !N.eqb_refl in Hf. discriminate. }
  destruct ((a =? c) && (b =? d)) eqn:E.
  - apply andb_true_iff in E. destruct E as [E1 E2].
    apply N.eqb_eq in E1, E2. subst. reflexivity.
  - specialize (Hne eq_refl).
    destruct (N.ltb_spec b c) as [Hbc|Hbc]; [|destruct (N.ltb_spec d a) as [Hda|Hda]].
    + split; [assumption|]. intros x y [? ?] [? ?]. lia.
    + split; [assumption|]. intros x y [? ?] [? ?]. lia.
    + split; [assumption|]. exists a, d, b, c. lia.
Qed.
