(* SubTerms.v -- executable model of the sub-term iterators of regular_expressions.rs (no proofs here):
   ReIterator / sub_terms(r) (a BfsQueue<RegLan> over the children of each popped term), leaves(r),
   BaseRegLan::is_atomic, RE::is_empty, RE::num_deriv_classes, RE::valid_class_id.

   BfsQueue<RegLan> = FIFO queue + HashSet of the terms ever pushed; Eq / Hash of a hash-consed RE are
   by id, so the seen set is a list of ids.  The iterator is lazy in Rust; the model collects what
   it yields.  The loop runs on fuel = (number of nodes of r as a tree) + 1; out of fuel = None
   (proved impossible in SubTermsProofs.v). *)
Require Import Base CharSet Partition LoopRange Regex.
Open Scope nat_scope.

(* BaseRegLan::is_atomic *)
Definition k_is_atomic (k : node) : bool :=
  match k with NEmpty | NEps | NRange _ => true | _ => false end.
Definition re_is_atomic (e : re) : bool := k_is_atomic (rnode e).
(* RE::is_empty: matches!(self.expr, BaseRegLan::Empty) *)
Definition re_is_empty (e : re) : bool := match rnode e with NEmpty => true | _ => false end.
(* RE::num_deriv_classes / RE::valid_class_id *)
Definition re_num_deriv_classes (e : re) : nat := plen (rcls e).
Definition re_valid_class_id (e : re) (cid : classid) : bool := pvalid (rcls e) cid.

(* what ReIterator::next pushes after popping x, in this order *)
Definition st_children (k : node) : list re :=
  match k with
  | NConcat a b => [a; b]
  | NLoop a _ => [a]
  | NCompl a => [a]
  | NInter l => l
  | NUnion l => l
  | _ => []
  end.

(* BfsQueue::push: enqueue unless seen before *)
Definition bfs_push (qs : list re * list N) (x : re) : list re * list N :=
  if existsb (N.eqb (rid x)) (snd qs) then qs else (fst qs ++ [x], rid x :: snd qs).
Definition bfs_push_all (qs : list re * list N) (l : list re) : list re * list N := fold_left bfs_push l qs.

Fixpoint sub_go (fuel : nat) (queue : list re) (seen : list N) (out : list re) : option (list re) :=
  match fuel with
  | O => None
  | S f =>
    match queue with
    | [] => Some out
    | x :: q =>
      let '(q1, s1) := bfs_push_all (q, seen) (st_children (rnode x)) in
      sub_go f q1 s1 (out ++ [x])
    end
  end.

(* number of nodes of the term read as a tree *)
Fixpoint re_size (e : re) : nat :=
  match e with
  | Node _ _ _ k =>
    S match k with
      | NEmpty | NEps | NRange _ => 0
      | NConcat a b => re_size a + re_size b
      | NLoop a _ | NCompl a => re_size a
      | NUnion l | NInter l => (fix go (l : list re) := match l with [] => 0 | x :: t => re_size x + go t end) l
      end
  end.

(* sub_terms(r): queue.push(r), then iterate *)
Definition sub_terms_fuel (fuel : nat) (r : re) : option (list re) :=
  let '(q, s) := bfs_push ([], []) r in sub_go fuel q s [].
Definition sub_terms (r : re) : option (list re) := sub_terms_fuel (S (re_size r)) r.
(* leaves(r): sub_terms(r).filter(|x| x.expr.is_atomic()) *)
Definition leaves_fuel (fuel : nat) (r : re) : option (list re) :=
  option_map (filter re_is_atomic) (sub_terms_fuel fuel r).
Definition leaves (r : re) : option (list re) := leaves_fuel (S (re_size r)) r.
