(* SemProofs.v -- basic facts about the semantics of model terms (Sem.v): an induction principle
   over id-tagged terms, characterisations of L per node kind, well-formedness of sub-terms,
   correctness of the cached nullable attribute, the language of a flattened concatenation, and
   Sigma^* (is_full) contains every good word.  Local facts about l_concat / l_pow are prefixed
   sp_ (independent of Lang.v). *)
Require Import Base CharSet CharSetProofs Partition LoopRange Regex Denote Sem.
Open Scope N_scope.

(* ---------- induction over terms: a property holds of e if it holds of all children ---------- *)
Lemma re_child_ind (P : re -> Prop) :
  (forall e, (forall c, In c (children (rnode e)) -> P c) -> P e) -> forall e, P e.
Proof.
  intros H. fix IH 1. intros [i n c k]. apply H. simpl.
  destruct k as [| |s|a b|a r|a|l|l]; simpl.
  - intros x [].
  - intros x [].
  - intros x [].
  - intros x [<-|[<-|[]]]; apply IH.
  - intros x [<-|[]]; apply IH.
  - intros x [<-|[]]; apply IH.
  - revert l. fix IHl 1. intros [|x t] y Hy.
    + destruct Hy.
    + destruct Hy as [<-|Hy]. apply IH. apply (IHl t y Hy).
  - revert l. fix IHl 1. intros [|x t] y Hy.
    + destruct Hy.
    + destruct Hy as [<-|Hy]. apply IH. apply (IHl t y Hy).
Qed.

(* ---------- languages: concatenation, powers ---------- *)
Fixpoint l_concat_list (ls : list lang) : lang :=
  match ls with [] => fun w => w = [] | A :: t => l_concat A (l_concat_list t) end.
(* the language of a list of factors *)
Definition CL (l : list re) : lang := l_concat_list (map L l).

Lemma goodw_app u v : goodw (u ++ v) <-> goodw u /\ goodw v.
Proof. unfold goodw. apply Forall_app. Qed.

Lemma sp_concat_nil_l (A : lang) w : l_concat (fun x => x = []) A w <-> A w.
Proof.
  unfold l_concat. split.
  - intros (u & v & -> & -> & Hv). exact Hv.
  - intros Hw. exists [], w. auto.
Qed.
Lemma sp_concat_nil_r (A : lang) w : l_concat A (fun x => x = []) w <-> A w.
Proof.
  unfold l_concat. split.
  - intros (u & v & -> & Hu & ->). rewrite app_nil_r. exact Hu.
  - intros Hw. exists w, []. rewrite app_nil_r. auto.
Qed.
Lemma sp_concat_mono (A A' B B' : lang) w :
  (forall x, A x -> A' x) -> (forall x, B x -> B' x) -> l_concat A B w -> l_concat A' B' w.
Proof. intros HA HB (u & v & -> & Hu & Hv). exists u, v. auto. Qed.
Lemma sp_concat_assoc (A B C : lang) w :
  l_concat (l_concat A B) C w <-> l_concat A (l_concat B C) w.
Proof.
  unfold l_concat. split.
  - intros (uv & z & -> & (u & v & -> & Hu & Hv) & Hz).
    exists u, (v ++ z). rewrite app_assoc. repeat split; auto. exists v, z. auto.
  - intros (u & vz & -> & Hu & (v & z & -> & Hv & Hz)).
    exists (u ++ v), z. rewrite app_assoc. repeat split; auto. exists u, v. auto.
Qed.
Lemma sp_concat_nil_inv (A B : lang) : l_concat A B [] <-> A [] /\ B [].
Proof.
  unfold l_concat. split.
  - intros (u & v & E & Hu & Hv). symmetry in E. apply app_eq_nil in E. destruct E; subst. auto.
  - intros [Ha Hb]. exists [], []. auto.
Qed.

Lemma l_concat_list_app a b w :
  l_concat_list (a ++ b) w <-> l_concat (l_concat_list a) (l_concat_list b) w.
Proof.
  revert w. induction a as [|A a IH]; intros w; simpl.
  - symmetry. apply sp_concat_nil_l.
  - rewrite sp_concat_assoc. split; apply sp_concat_mono; auto; intros x; apply IH.
Qed.
Lemma CL_app a b w : CL (a ++ b) w <-> l_concat (CL a) (CL b) w.
Proof. unfold CL. rewrite map_app. apply l_concat_list_app. Qed.
Lemma CL_nil w : CL [] w <-> w = [].
Proof. reflexivity. Qed.
Lemma CL_cons x t w : CL (x :: t) w <-> l_concat (L x) (CL t) w.
Proof. reflexivity. Qed.
Lemma CL_single x w : CL [x] w <-> L x w.
Proof. unfold CL. simpl. apply sp_concat_nil_r. Qed.

Lemma sp_pow_nil (A : lang) n : A [] -> l_pow A n [].
Proof. intros HA. induction n as [|n IH]; simpl. reflexivity. apply sp_concat_nil_inv. auto. Qed.
Lemma sp_pow_nil_inv (A : lang) n : l_pow A (S n) [] -> A [].
Proof. simpl. intros H. apply sp_concat_nil_inv in H. tauto. Qed.
(* if A contains every good one-letter word, A^|w| contains the good word w *)
Lemma sp_pow_letters (A : lang) w :
  (forall c, good c -> A [c]) -> goodw w -> l_pow A (length w) w.
Proof.
  intros HA. induction w as [|c w IH]; intros Hw; simpl.
  - reflexivity.
  - inversion Hw; subst. exists [c], w. auto.
Qed.

(* ---------- L by node kind ---------- *)
Lemma L_empty e w : rnode e = NEmpty -> (L e w <-> False).
Proof. destruct e as [i n c k]; simpl; intros ->. reflexivity. Qed.
Lemma L_eps e w : rnode e = NEps -> (L e w <-> w = []).
Proof. destruct e as [i n c k]; simpl; intros ->. reflexivity. Qed.
Lemma L_range e s w : rnode e = NRange s -> (L e w <-> exists c, w = [c] /\ mem c s).
Proof. destruct e as [i n c k]; simpl; intros ->. reflexivity. Qed.
Lemma L_concat e a b w : rnode e = NConcat a b -> (L e w <-> l_concat (L a) (L b) w).
Proof. destruct e as [i n c k]; simpl; intros ->. reflexivity. Qed.
Lemma L_loop e a r w : rnode e = NLoop a r -> (L e w <-> exists n, in_lr n r /\ l_pow (L a) n w).
Proof. destruct e as [i n c k]; simpl; intros ->. reflexivity. Qed.
Lemma L_compl e a w : rnode e = NCompl a -> (L e w <-> ~ L a w).
Proof. destruct e as [i n c k]; simpl; intros ->. reflexivity. Qed.
Lemma L_union_node i n c l w : L (Node i n c (NUnion l)) w <-> exists x, In x l /\ L x w.
Proof.
  simpl. induction l as [|x t IH].
  - split. intros []. intros (x & [] & _).
  - rewrite IH. split.
    + intros [H|(y & Hy & Hw)]. exists x. simpl; auto. exists y. simpl; auto.
    + intros (y & [<-|Hy] & Hw). auto. right. exists y. auto.
Qed.
Lemma L_inter_node i n c l w : L (Node i n c (NInter l)) w <-> forall x, In x l -> L x w.
Proof.
  simpl. induction l as [|x t IH].
  - split. intros _ x []. auto.
  - rewrite IH. split.
    + intros [H1 H2] y [<-|Hy]; auto.
    + intros H. split. apply H. simpl; auto. intros y Hy. apply H. simpl; auto.
Qed.
Lemma L_union e l w : rnode e = NUnion l -> (L e w <-> exists x, In x l /\ L x w).
Proof. destruct e as [i n c k]; simpl rnode; intros ->. apply L_union_node. Qed.
Lemma L_inter e l w : rnode e = NInter l -> (L e w <-> forall x, In x l -> L x w).
Proof. destruct e as [i n c k]; simpl rnode; intros ->. apply L_inter_node. Qed.

(* ---------- well-formedness of sub-terms ---------- *)
Lemma wf_list_forall (l : list re) :
  (fix all (l : list re) : Prop := match l with [] => True | x :: t => wf_term x /\ all t end) l
  <-> Forall wf_term l.
Proof.
  induction l as [|x t IH]. split; auto.
  rewrite IH. split. intros [H1 H2]. constructor; auto. intros H. inversion H; auto.
Qed.
Lemma wf_nul e : wf_term e -> rnul e = k_nullable (rnode e).
Proof. destruct e as [i n c k]; simpl. tauto. Qed.
Lemma wf_cls e : wf_term e -> rcls e = k_class (rnode e).
Proof. destruct e as [i n c k]; simpl. tauto. Qed.
Lemma wf_children e : wf_term e -> forall c, In c (children (rnode e)) -> wf_term c.
Proof.
  destruct e as [i n c k]. simpl. intros (_ & _ & H) x Hx.
  destruct k as [| |s|a b|a r|a|l|l]; simpl in Hx.
  - destruct Hx.
  - destruct Hx.
  - destruct Hx.
  - destruct Hx as [<-|[<-|[]]]; tauto.
  - destruct Hx as [<-|[]]; tauto.
  - destruct Hx as [<-|[]]; tauto.
  - apply wf_list_forall in H. rewrite Forall_forall in H. auto.
  - apply wf_list_forall in H. rewrite Forall_forall in H. auto.
Qed.
Lemma wf_range e s : wf_term e -> rnode e = NRange s -> cs_valid s.
Proof. destruct e as [i n c k]; simpl. intros (_ & _ & H) ->. exact H. Qed.
Lemma wf_loop e a r : wf_term e -> rnode e = NLoop a r -> wf_term a /\ lr_valid r.
Proof. destruct e as [i n c k]; simpl. intros (_ & _ & H) ->. exact H. Qed.
Lemma wf_concat e a b : wf_term e -> rnode e = NConcat a b -> wf_term a /\ wf_term b.
Proof. destruct e as [i n c k]; simpl. intros (_ & _ & H) ->. exact H. Qed.
Lemma wf_compl e a : wf_term e -> rnode e = NCompl a -> wf_term a.
Proof. destruct e as [i n c k]; simpl. intros (_ & _ & H) ->. exact H. Qed.
Lemma wf_union e l : wf_term e -> rnode e = NUnion l -> Forall wf_term l.
Proof. destruct e as [i n c k]; simpl. intros (_ & _ & H) ->. apply wf_list_forall. exact H. Qed.
Lemma wf_inter e l : wf_term e -> rnode e = NInter l -> Forall wf_term l.
Proof. destruct e as [i n c k]; simpl. intros (_ & _ & H) ->. apply wf_list_forall. exact H. Qed.

(* ---------- character sets ---------- *)
Lemma covers_mem s o x : cs_covers s o = true -> mem x o -> mem x s.
Proof.
  unfold cs_covers, mem. intros H [H1 H2]. apply andb_true_iff in H. destruct H as [Ha Hb].
  apply N.leb_le in Ha. apply N.leb_le in Hb. lia.
Qed.
Lemma alphabet_mem s x : cs_is_alphabet s = true -> good x -> mem x s.
Proof.
  unfold cs_is_alphabet, mem, good. intros H Hx. apply andb_true_iff in H. destruct H as [Ha Hb].
  apply N.eqb_eq in Ha. apply N.eqb_eq in Hb. lia.
Qed.
Lemma mem_valid_good s x : cs_valid s -> mem x s -> good x.
Proof. unfold cs_valid, mem, good. lia. Qed.

(* ---------- the cached nullable attribute ---------- *)
Lemma in_lr_lo r : lr_valid r -> in_lr (N.to_nat (lr_start r)) r.
Proof.
  unfold in_lr. rewrite N2Nat.id. destruct r as [a [b|]]; simpl; lia.
Qed.
Lemma in_lr_zero r : in_lr 0 r <-> lr_start r = 0.
Proof. unfold in_lr. destruct r as [a [b|]]; simpl; lia. Qed.

Theorem nullable_correct : forall e, wf_term e -> (rnul e = true <-> L e []).
Proof.
  induction e as [e IH] using re_child_ind. intros Hwf.
  assert (Hc : forall c, In c (children (rnode e)) -> (rnul c = true <-> L c [])).
  { intros c Hc. apply IH. exact Hc. apply (wf_children e Hwf c Hc). }
  rewrite (wf_nul e Hwf). clear IH.
  destruct (rnode e) as [| |s|a b|a r|a|l|l] eqn:Hk; simpl in Hc; simpl k_nullable.
  - rewrite (L_empty e [] Hk). split. discriminate. tauto.
  - rewrite (L_eps e [] Hk). tauto.
  - rewrite (L_range e s [] Hk). split. discriminate. intros (c & Hc' & _). discriminate.
  - rewrite (L_concat e a b [] Hk), sp_concat_nil_inv, andb_true_iff.
    rewrite (Hc a), (Hc b); simpl; tauto.
  - rewrite (L_loop e a r [] Hk), orb_true_iff, N.eqb_eq.
    destruct (wf_loop e a r Hwf Hk) as [_ Hr]. split.
    + intros [H0|Ha].
      * exists O. split. apply in_lr_zero; exact H0. reflexivity.
      * exists (N.to_nat (lr_start r)). split. apply in_lr_lo; exact Hr.
        apply sp_pow_nil. apply Hc; simpl; auto.
    + intros ([|n] & Hn & Hp).
      * left. apply in_lr_zero. exact Hn.
      * right. apply Hc. simpl; auto. apply (sp_pow_nil_inv _ n Hp).
  - rewrite (L_compl e a [] Hk), negb_true_iff. rewrite <- (Hc a) by (simpl; auto).
    destruct (rnul a); split; intros; try discriminate; try tauto.
  - rewrite (L_union e l [] Hk), existsb_exists. split.
    + intros (x & Hx & Hn). exists x. split; auto. apply Hc; auto.
    + intros (x & Hx & Hn). exists x. split; auto. apply Hc; auto.
  - rewrite (L_inter e l [] Hk), forallb_forall. split.
    + intros H x Hx. apply Hc; auto.
    + intros H x Hx. apply Hc; auto.
Qed.

(* ---------- flattened concatenations ---------- *)
Theorem flatten_concat_lang : forall e w, L e w <-> l_concat_list (map L (flatten_concat e)) w.
Proof.
  induction e as [e IH] using re_child_ind. intros w.
  destruct e as [i n c k]. simpl rnode in IH.
  destruct k as [| |s|a b|a r|a|l|l];
    try (cbn [flatten_concat]; symmetry; apply CL_single).
  - simpl. tauto.
  - change (l_concat (L a) (L b) w <-> l_concat_list (map L (flatten_concat a ++ flatten_concat b)) w).
    rewrite map_app, l_concat_list_app.
    split; apply sp_concat_mono; intros x; try apply (IH a); try apply (IH b); simpl; auto.
Qed.
Lemma flatten_concat_CL e w : L e w <-> CL (flatten_concat e) w.
Proof. apply flatten_concat_lang. Qed.

Lemma wf_flatten_concat : forall e, wf_term e -> Forall wf_term (flatten_concat e).
Proof.
  induction e as [e IH] using re_child_ind. intros Hwf.
  destruct e as [i n c k]. simpl rnode in IH.
  destruct k as [| |s|a b|a r|a|l|l]; try (constructor; [exact Hwf|constructor]).
  - constructor.
  - simpl. destruct Hwf as (_ & _ & Ha & Hb). apply Forall_app. split; apply IH; simpl; auto.
Qed.

(* ---------- Sigma^* ---------- *)
Lemma is_all_chars_L e c : is_all_chars e = true -> good c -> L e [c].
Proof.
  unfold is_all_chars. destruct (rnode e) as [| |s|a b|a r|a|l|l] eqn:Hk; try discriminate.
  intros Hs Hc. apply (L_range e s [c] Hk). exists c. split; auto. apply alphabet_mem; auto.
Qed.
Theorem is_full_all : forall e, is_full e = true -> forall w, goodw w -> L e w.
Proof.
  intros e. unfold is_full. destruct (rnode e) as [| |s|a b|a r|a|l|l] eqn:Hk; try discriminate.
  intros H w Hw. apply andb_true_iff in H. destruct H as [Hr Ha].
  apply (L_loop e a r w Hk). exists (length w). split.
  - destruct r as [[|p] [hi|]]; try discriminate. unfold in_lr. simpl. lia.
  - apply sp_pow_letters; auto. intros c Hc. apply is_all_chars_L; auto.
Qed.
(* the task statement's form *)
Lemma is_full_sigma_star e : is_full e = true -> wf_term e -> forall w, goodw w -> L e w.
Proof. intros H _. apply is_full_all. exact H. Qed.

(* words of a well-formed Range are good; more generally complements aside, nothing here needs
   goodness of the words of L e: lang_incl / lang_eq quantify over good words only. *)
Lemma lang_incl_refl A : lang_incl A A.
Proof. intros w _ H. exact H. Qed.
Lemma lang_incl_trans A B C : lang_incl A B -> lang_incl B C -> lang_incl A C.
Proof. intros H1 H2 w Hw H. apply H2; auto. Qed.
