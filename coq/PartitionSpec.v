(* PartitionSpec.v -- set-theoretic meaning of a CharPartition (specification side; no code model).
   A partition denotes: its intervals C_0 < C_1 < ... (sorted, pairwise disjoint, valid) and the
   complementary class D = good characters in no interval.  [wit] is the least number not covered
   (<= MAX_CHAR+1, equal to MAX_CHAR+1 iff D is empty). *)
Require Import Base CharSet Partition.
Open Scope N_scope.

Fixpoint ivs_sorted (l : list cs) : Prop :=
  match l with
  | [] => True
  | x :: t => cs_valid x /\ match t with [] => True | y :: _ => snd x < fst y end /\ ivs_sorted t
  end.
Fixpoint ivs_sortedb (l : list cs) : bool :=
  match l with
  | [] => true
  | x :: t => cs_validb x && match t with [] => true | y :: _ => snd x <? fst y end && ivs_sortedb t
  end.

Definition covered (l : list cs) (x : N) : Prop := exists s, In s l /\ mem x s.
Definition coveredb (l : list cs) (x : N) : bool := existsb (fun s => cs_contains s x) l.

(* w is the least natural number that no interval contains *)
Definition wit_ok (l : list cs) (w : N) : Prop := ~ covered l w /\ forall x, x < w -> covered l x.

Definition pwf (p : part) : Prop := ivs_sorted (ivs p) /\ wit_ok (ivs p) (wit p).

(* character x belongs to class c of p *)
Definition in_class (p : part) (x : N) (c : classid) : Prop :=
  match c with
  | CInt i => exists s, nth_error (ivs p) i = Some s /\ mem x s
  | CComp => good x /\ ~ covered (ivs p) x
  end.
(* x and y are in the same class of p (both good characters) *)
Definition same_class (p : part) (x y : N) : Prop :=
  (exists s, In s (ivs p) /\ mem x s /\ mem y s) \/ (~ covered (ivs p) x /\ ~ covered (ivs p) y).

(* the set [a,b] lies inside interval i / meets no interval *)
Definition set_inside (p : part) (s : cs) (i : nat) : Prop :=
  exists t, nth_error (ivs p) i = Some t /\ forall x, mem x s -> mem x t.
Definition set_disjoint (p : part) (s : cs) : Prop := forall x, mem x s -> ~ covered (ivs p) x.

(* pairwise disjointness of an arbitrary list of sets (input of try_from_iter) *)
Fixpoint pairwise_disjoint (l : list cs) : Prop :=
  match l with
  | [] => True
  | x :: t => Forall (fun y => forall z, ~ (mem z x /\ mem z y)) t /\ pairwise_disjoint t
  end.

(* boolean well-formedness (used by generators and examples): witness checked by a scan *)
Fixpoint least_uncovered (l : list cs) (w : N) : N :=
  match l with
  | [] => w
  | s :: t => if fst s <=? w then least_uncovered t (N.max w (snd s + 1)) else w
  end.
Definition pwfb (p : part) : bool := ivs_sortedb (ivs p) && (wit p =? least_uncovered (ivs p) 0).
