(* Sem.v -- semantics of model terms (specification side): the language L of an id-tagged tree,
   term-level well-formedness (cached attributes = their recursive definitions, valid ranges),
   ownership of terms by a manager and manager extension.  Definitions only. *)
Require Import Base CharSet Partition PartitionSpec LoopRange Regex Denote.
Open Scope N_scope.

(* n iterations allowed by a loop range *)
Definition in_lr (n : nat) (r : lr) : Prop := inr (N.of_nat n) r.

Fixpoint L (e : re) : lang :=
  match e with
  | Node _ _ _ k =>
    match k with
    | NEmpty => fun _ => False
    | NEps => fun w => w = []
    | NRange s => fun w => exists c, w = [c] /\ mem c s
    | NConcat a b => l_concat (L a) (L b)
    | NLoop a r => fun w => exists n, in_lr n r /\ l_pow (L a) n w
    | NCompl a => fun w => ~ L a w
    | NUnion l => fun w => (fix ex (l : list re) : Prop := match l with [] => False | x :: t => L x w \/ ex t end) l
    | NInter l => fun w => (fix al (l : list re) : Prop := match l with [] => True | x :: t => L x w /\ al t end) l
    end
  end.
(* two languages agree on all well-formed SMT strings *)
Definition lang_eq (A B : lang) : Prop := forall w, goodw w -> (A w <-> B w).
Definition lang_incl (A B : lang) : Prop := forall w, goodw w -> A w -> B w.

Definition children (k : node) : list re :=
  match k with
  | NEmpty | NEps | NRange _ => []
  | NConcat a b => [a; b]
  | NLoop a _ | NCompl a => [a]
  | NUnion l | NInter l => l
  end.

(* term-level well-formedness: what HashConsed::make establishes for every term it creates *)
Fixpoint wf_term (e : re) : Prop :=
  match e with
  | Node i n c k =>
    n = k_nullable k /\ c = k_class k /\
    match k with
    | NEmpty | NEps => True
    | NRange s => cs_valid s
    | NConcat a b => wf_term a /\ wf_term b
    | NLoop a r => wf_term a /\ lr_valid r
    | NCompl a => wf_term a
    | NUnion l | NInter l => (fix all (l : list re) : Prop := match l with [] => True | x :: t => wf_term x /\ all t end) l
    end
  end.

(* ownership and extension of managers *)
Definition at_id (m : mgr) (i : nat) : option re := nth_error (id2re m) i.
Definition owned (m : mgr) (e : re) : Prop := at_id m (N.to_nat (rid e)) = Some e.
Definition ext (m m' : mgr) : Prop :=
  (exists l, id2re m' = id2re m ++ l) /\ (forall k e, In (k, e) (tbl m) -> In (k, e) (tbl m')).
