(* RunProofs.v -- C01, constructor layer: the interpreter [run] of construction programs (the calls the
   public API makes for each SMT-LIB regex operator) and its correctness against the SMT-LIB
   denotation [denote] of Denote.v, from ANY well-formed manager (history independence).
   [run] is specification glue (an executable model-level helper), hence defined here.
   The soundness of the syntactic inclusion test used by the union constructor (property C16,
   InclusionProofs.v) is an explicit premise [inclusion_sound]. *)
Require Import Base CharSet Partition PartitionSpec LoopRange Regex Inclusion Constructors Denote Sem.
Require Import Lang ManagerProofs ConstructorProofs.
Open Scope N_scope.

Fixpoint run (p : prog) (m : mgr) : option (mgr * re) :=
  match p with
  | PNone => Some (m, m_empty m)
  | PEps => Some (m, m_eps m)
  | PAll => Some (m, m_full m)
  | PAllChar => Some (m, m_sigma m)
  | PRange a b => range m a b
  | PStr w => mstr m w
  | PConcat p q => do (m1, a) <- run p m; do (m2, b) <- run q m1; concat a m2 b
  | PUnion p q => do (m1, a) <- run p m; do (m2, b) <- run q m1; union m2 a b
  | PInter p q => do (m1, a) <- run p m; do (m2, b) <- run q m1; inter m2 a b
  | PComp p => do (m1, a) <- run p m; do r <- complement m1 a; Some (m1, r)
  | PDiff p q => do (m1, a) <- run p m; do (m2, b) <- run q m1; diff m2 a b
  | PLoop p lo (Some hi) => do (m1, a) <- run p m; smt_loop m1 a lo hi
  | PLoop p lo None => do (m1, a) <- run p m; loop_inf m1 a lo
  | PDeriv _ _ => None
  end.

(* programs the API accepts: range bounds ordered and within the alphabet, literal strings made of
   valid characters, loop bounds within u32, no derivative nodes *)
Fixpoint prog_ok (p : prog) : bool :=
  match p with
  | PNone | PEps | PAll | PAllChar => true
  | PRange a b => (a <=? b) && (b <=? MAXC)
  | PStr w => goodwb w
  | PConcat p q | PUnion p q | PInter p q | PDiff p q => prog_ok p && prog_ok q
  | PComp p => prog_ok p
  | PLoop p lo (Some hi) => prog_ok p && (hi <=? U32MAX)
  | PLoop p lo None => prog_ok p && (lo <=? U32MAX)
  | PDeriv _ _ => false
  end.

(* C16 (proved in InclusionProofs.v): included_in never claims an inclusion that does not hold *)
Definition inclusion_sound : Prop := forall m, wf m -> inclusion_sound_on m.

Theorem run_correct : inclusion_sound -> forall p m m' t,
  wf m -> prog_ok p = true -> run p m = Some (m', t) -> post m m' t (denote p).
Proof.
  intros Hsub. induction p as [| | | |a b|s|p IHp q IHq|p IHp q IHq|p IHp q IHq|p IHp|p IHp q IHq|p IHp lo hi|p IHp c];
    intros m m' t W Hok H; cbn [run prog_ok] in H, Hok.
  - inversion H; subst. apply empty_ok; auto.
  - inversion H; subst. apply eps_ok; auto.
  - inversion H; subst. apply full_ok; auto.
  - inversion H; subst. apply sigma_ok; auto.
  - destruct (range_ok m a b m' t W H) as (H1 & H2 & Hp). eapply post_weaken; [exact Hp|].
    apply lang_eq_of_equiv. intros w. cbn [denote]. split; intros (c & -> & Hc); exists c; split; auto.
    + unfold good. repeat split; lia.
    + tauto.
  - destruct (mstr_ok m s m' t W H) as (_ & Hp). exact Hp.
  - apply andb_true_iff in Hok as [Hok1 Hok2].
    destruct (run p m) as [[m1 a]|] eqn:R1; cbn [bind] in H; [|discriminate].
    destruct (run q m1) as [[m2 b]|] eqn:R2; cbn [bind] in H; [|discriminate].
    destruct (IHp m m1 a W Hok1 R1) as (W1 & X1 & Oa & La).
    destruct (IHq m1 m2 b W1 Hok2 R2) as (W2 & X2 & Ob & Lb).
    apply (concat_ok a m2 b m' t W2 (ext_owned m1 m2 a X2 Oa) Ob) in H.
    apply (post_ext m m2 m' t _ (ext_trans _ _ _ X1 X2)). eapply post_weaken; [exact H|].
    cbn [denote]. apply lang_eq_concat; auto.
  - apply andb_true_iff in Hok as [Hok1 Hok2].
    destruct (run p m) as [[m1 a]|] eqn:R1; cbn [bind] in H; [|discriminate].
    destruct (run q m1) as [[m2 b]|] eqn:R2; cbn [bind] in H; [|discriminate].
    destruct (IHp m m1 a W Hok1 R1) as (W1 & X1 & Oa & La).
    destruct (IHq m1 m2 b W1 Hok2 R2) as (W2 & X2 & Ob & Lb).
    apply (union_ok m2 a b m' t W2 (Hsub m2 W2) (ext_owned m1 m2 a X2 Oa) Ob) in H.
    apply (post_ext m m2 m' t _ (ext_trans _ _ _ X1 X2)). eapply post_weaken; [exact H|].
    cbn [denote]. intros w Hg. rewrite (La w Hg), (Lb w Hg). tauto.
  - apply andb_true_iff in Hok as [Hok1 Hok2].
    destruct (run p m) as [[m1 a]|] eqn:R1; cbn [bind] in H; [|discriminate].
    destruct (run q m1) as [[m2 b]|] eqn:R2; cbn [bind] in H; [|discriminate].
    destruct (IHp m m1 a W Hok1 R1) as (W1 & X1 & Oa & La).
    destruct (IHq m1 m2 b W1 Hok2 R2) as (W2 & X2 & Ob & Lb).
    apply (inter_ok m2 a b m' t W2 (ext_owned m1 m2 a X2 Oa) Ob) in H.
    apply (post_ext m m2 m' t _ (ext_trans _ _ _ X1 X2)). eapply post_weaken; [exact H|].
    cbn [denote]. intros w Hg. rewrite (La w Hg), (Lb w Hg). tauto.
  - destruct (run p m) as [[m1 a]|] eqn:R1; cbn [bind] in H; [|discriminate].
    destruct (IHp m m1 a W Hok R1) as (W1 & X1 & Oa & La).
    destruct (complement_ok m1 a W1 Oa) as (r & E & Or & Lr). rewrite E in H. cbn [bind] in H.
    inversion H; subst m' t. split; [exact W1|]. split; [exact X1|]. split; [exact Or|].
    cbn [denote]. intros w Hg. rewrite (Lr w Hg), (La w Hg). tauto.
  - apply andb_true_iff in Hok as [Hok1 Hok2].
    destruct (run p m) as [[m1 a]|] eqn:R1; cbn [bind] in H; [|discriminate].
    destruct (run q m1) as [[m2 b]|] eqn:R2; cbn [bind] in H; [|discriminate].
    destruct (IHp m m1 a W Hok1 R1) as (W1 & X1 & Oa & La).
    destruct (IHq m1 m2 b W1 Hok2 R2) as (W2 & X2 & Ob & Lb).
    apply (diff_ok m2 a b m' t W2 (ext_owned m1 m2 a X2 Oa) Ob) in H.
    apply (post_ext m m2 m' t _ (ext_trans _ _ _ X1 X2)). eapply post_weaken; [exact H|].
    cbn [denote]. intros w Hg. rewrite (La w Hg), (Lb w Hg). tauto.
  - assert (Hloop : forall (A B : lang), lang_eq A B -> lang_eq (l_bounds A lo hi) (l_bounds B lo hi)).
    { intros A B HAB w Hg. unfold l_bounds. split; intros (n & Hn & Hp); exists n; split; auto;
        apply (lang_eq_pow A B n HAB w Hg); auto. }
    destruct hi as [hi|]; apply andb_true_iff in Hok as [Hok1 Hok2]; apply N.leb_le in Hok2;
      (destruct (run p m) as [[m1 a]|] eqn:R1; cbn [bind] in H; [|discriminate]);
      destruct (IHp m m1 a W Hok1 R1) as (W1 & X1 & Oa & La).
    + apply (smt_loop_ok m1 a lo hi m' t W1 Oa Hok2) in H.
      apply (post_ext m m1 m' t _ X1). eapply post_weaken; [exact H|]. apply Hloop. exact La.
    + apply (loop_inf_ok m1 a lo m' t W1 Oa Hok2) in H.
      apply (post_ext m m1 m' t _ X1). eapply post_weaken; [exact H|]. apply Hloop. exact La.
  - discriminate.
Qed.

(* the public nullable flag of the constructed term *)
Theorem nullable_run : inclusion_sound -> forall p m m' t,
  wf m -> prog_ok p = true -> run p m = Some (m', t) -> (rnul t = true <-> denote p []).
Proof.
  intros Hsub p m m' t W Hok H. destruct (run_correct Hsub p m m' t W Hok H) as (W' & _ & Ot & HL).
  rewrite (nullable_owned m' t W' Ot). apply HL. constructor.
Qed.

(* well-formedness alone does not need the inclusion premise *)
Theorem run_wf : forall p m m' t,
  wf m -> prog_ok p = true -> run p m = Some (m', t) -> wf m' /\ ext m m' /\ owned m' t.
Proof.
  induction p as [| | | |a b|s|p IHp q IHq|p IHp q IHq|p IHp q IHq|p IHp|p IHp q IHq|p IHp lo hi|p IHp c];
    intros m m' t W Hok H; cbn [run prog_ok] in H, Hok.
  - inversion H; subst. exact (post_wf _ _ _ _ (empty_ok m' W)).
  - inversion H; subst. exact (post_wf _ _ _ _ (eps_ok m' W)).
  - inversion H; subst. exact (post_wf _ _ _ _ (full_ok m' W)).
  - inversion H; subst. exact (post_wf _ _ _ _ (sigma_ok m' W)).
  - eapply range_wf; eauto.
  - eapply mstr_wf; eauto.
  - apply andb_true_iff in Hok as [Hok1 Hok2].
    destruct (run p m) as [[m1 a]|] eqn:R1; cbn [bind] in H; [|discriminate].
    destruct (run q m1) as [[m2 b]|] eqn:R2; cbn [bind] in H; [|discriminate].
    destruct (IHp m m1 a W Hok1 R1) as (W1 & X1 & Oa). destruct (IHq m1 m2 b W1 Hok2 R2) as (W2 & X2 & Ob).
    destruct (concat_wf a m2 b m' t W2 (ext_owned m1 m2 a X2 Oa) Ob H) as (W3 & X3 & Ot).
    split; auto. split; auto. eapply ext_trans; [exact X1|]. eapply ext_trans; eauto.
  - apply andb_true_iff in Hok as [Hok1 Hok2].
    destruct (run p m) as [[m1 a]|] eqn:R1; cbn [bind] in H; [|discriminate].
    destruct (run q m1) as [[m2 b]|] eqn:R2; cbn [bind] in H; [|discriminate].
    destruct (IHp m m1 a W Hok1 R1) as (W1 & X1 & Oa). destruct (IHq m1 m2 b W1 Hok2 R2) as (W2 & X2 & Ob).
    destruct (union_wf m2 a b m' t W2 (ext_owned m1 m2 a X2 Oa) Ob H) as (W3 & X3 & Ot).
    split; auto. split; auto. eapply ext_trans; [exact X1|]. eapply ext_trans; eauto.
  - apply andb_true_iff in Hok as [Hok1 Hok2].
    destruct (run p m) as [[m1 a]|] eqn:R1; cbn [bind] in H; [|discriminate].
    destruct (run q m1) as [[m2 b]|] eqn:R2; cbn [bind] in H; [|discriminate].
    destruct (IHp m m1 a W Hok1 R1) as (W1 & X1 & Oa). destruct (IHq m1 m2 b W1 Hok2 R2) as (W2 & X2 & Ob).
    destruct (inter_wf m2 a b m' t W2 (ext_owned m1 m2 a X2 Oa) Ob H) as (W3 & X3 & Ot).
    split; auto. split; auto. eapply ext_trans; [exact X1|]. eapply ext_trans; eauto.
  - destruct (run p m) as [[m1 a]|] eqn:R1; cbn [bind] in H; [|discriminate].
    destruct (IHp m m1 a W Hok R1) as (W1 & X1 & Oa).
    destruct (complement_ok m1 a W1 Oa) as (r & E & Or & _). rewrite E in H. cbn [bind] in H.
    inversion H; subst. auto.
  - apply andb_true_iff in Hok as [Hok1 Hok2].
    destruct (run p m) as [[m1 a]|] eqn:R1; cbn [bind] in H; [|discriminate].
    destruct (run q m1) as [[m2 b]|] eqn:R2; cbn [bind] in H; [|discriminate].
    destruct (IHp m m1 a W Hok1 R1) as (W1 & X1 & Oa). destruct (IHq m1 m2 b W1 Hok2 R2) as (W2 & X2 & Ob).
    destruct (diff_wf m2 a b m' t W2 (ext_owned m1 m2 a X2 Oa) Ob H) as (W3 & X3 & Ot).
    split; auto. split; auto. eapply ext_trans; [exact X1|]. eapply ext_trans; eauto.
  - destruct hi as [hi|]; apply andb_true_iff in Hok as [Hok1 Hok2]; apply N.leb_le in Hok2;
      (destruct (run p m) as [[m1 a]|] eqn:R1; cbn [bind] in H; [|discriminate]);
      destruct (IHp m m1 a W Hok1 R1) as (W1 & X1 & Oa).
    + destruct (post_wf _ _ _ _ (smt_loop_ok m1 a lo hi m' t W1 Oa Hok2 H)) as (W3 & X3 & Ot).
      split; auto. split; auto. eapply ext_trans; eauto.
    + destruct (post_wf _ _ _ _ (loop_inf_ok m1 a lo m' t W1 Oa Hok2 H)) as (W3 & X3 & Ot).
      split; auto. split; auto. eapply ext_trans; eauto.
  - discriminate.
Qed.

(* ------------------------------------------------------------------------------------------ *)
(** * When does [run] panic?  Only when a u32 loop bound overflows. *)

(* some loop-range arithmetic on terms of manager m exceeds u32 *)
Definition overflow_at (m : mgr) : Prop :=
  (exists a b, owned m a /\ owned m b /\ add_overflow a b) \/
  (exists e x xr rng, owned m e /\ lr_valid rng /\ rnode e = NLoop x xr /\
     (lr_rmie xr rng = None \/ (lr_rmie xr rng = Some true /\ lr_mul xr rng = None))).
Definition overflow_after (m : mgr) : Prop := exists m1, wf m1 /\ ext m m1 /\ overflow_at m1.

Lemma overflow_after_ext m m1 : ext m m1 -> overflow_after m1 -> overflow_after m.
Proof. intros X (m2 & W2 & X2 & O). exists m2. split; auto. split; auto. eapply ext_trans; eauto. Qed.

Lemma concat_none_after e1 m e2 : wf m -> owned m e1 -> owned m e2 -> concat e1 m e2 = None ->
  overflow_after m.
Proof.
  intros W O1 O2 H. destruct (concat_none e1 m e2 W O1 O2 H) as (a & m1 & b & W1 & X1 & Oa & Ob & Hov).
  exists m1. split; auto. split; auto. left. exists a, b. auto.
Qed.

Lemma mk_loop_none_after m e rng : wf m -> owned m e -> lr_valid rng -> mk_loop m e rng = None ->
  overflow_after m.
Proof.
  intros W Oe Hv H. destruct (mk_loop_none m e rng W H) as (x & xr & K & Hov).
  exists m. split; auto. split; [apply ext_refl|]. right. exists e, x, xr, rng. auto.
Qed.

Lemma str_go_none : forall rw m acc, wf m -> owned m acc -> goodw rw -> str_go m rw acc = None ->
  overflow_after m.
Proof.
  induction rw as [|c rw IH]; intros m acc W Ho Hg H; cbn [str_go] in H; [discriminate|].
  inversion Hg as [|? ? Hc Hg']; subst.
  destruct (mchar_total m c W Hc) as (m1 & ch & C). rewrite C in H. cbn [bind] in H.
  destruct (mchar_ok m c m1 ch W C) as (_ & W1 & X1 & Och & _).
  destruct (concat ch m1 acc) as [[m2 r]|] eqn:C2; cbn [bind] in H.
  - destruct (concat_ok ch m1 acc m2 r W1 Och (ext_owned m m1 acc X1 Ho) C2) as (W2 & X2 & Or & _).
    apply (overflow_after_ext m m2 (ext_trans _ _ _ X1 X2)). eapply IH; eauto.
  - apply (overflow_after_ext m m1 X1). apply (concat_none_after ch m1 acc W1 Och (ext_owned m m1 acc X1 Ho) C2).
Qed.

Lemma inter_total m a b : wf m -> exists m' t, inter m a b = Some (m', t).
Proof. intros W. apply make_inter_total; auto. Qed.
Lemma union_total m a b : wf m -> exists m' t, union m a b = Some (m', t).
Proof. intros W. apply make_union_total; auto. Qed.

Theorem run_none : forall p m, wf m -> prog_ok p = true -> run p m = None -> overflow_after m.
Proof.
  induction p as [| | | |a b|s|p IHp q IHq|p IHp q IHq|p IHp q IHq|p IHp|p IHp q IHq|p IHp lo hi|p IHp c];
    intros m W Hok H; cbn [run prog_ok] in H, Hok; try discriminate.
  - apply (range_none m a b W) in H. exfalso. apply H.
    apply andb_true_iff in Hok as [H1 H2]. apply N.leb_le in H1, H2. auto.
  - apply goodwb_iff in Hok. unfold mstr in H.
    apply (str_go_none (rev s) m (m_eps m) W (c_eps_o m (wf_consts m W))); [|exact H].
    unfold goodw in *. rewrite Forall_forall in *. intros x Hx. apply Hok. apply in_rev. exact Hx.
  - apply andb_true_iff in Hok as [Hok1 Hok2].
    destruct (run p m) as [[m1 a]|] eqn:R1; cbn [bind] in H; [|eapply IHp; eauto].
    destruct (run_wf p m m1 a W Hok1 R1) as (W1 & X1 & Oa). apply (overflow_after_ext m m1 X1).
    destruct (run q m1) as [[m2 b]|] eqn:R2; cbn [bind] in H; [|eapply IHq; eauto].
    destruct (run_wf q m1 m2 b W1 Hok2 R2) as (W2 & X2 & Ob). apply (overflow_after_ext m1 m2 X2).
    apply (concat_none_after a m2 b W2 (ext_owned m1 m2 a X2 Oa) Ob H).
  - apply andb_true_iff in Hok as [Hok1 Hok2].
    destruct (run p m) as [[m1 a]|] eqn:R1; cbn [bind] in H; [|eapply IHp; eauto].
    destruct (run_wf p m m1 a W Hok1 R1) as (W1 & X1 & Oa). apply (overflow_after_ext m m1 X1).
    destruct (run q m1) as [[m2 b]|] eqn:R2; cbn [bind] in H; [|eapply IHq; eauto].
    destruct (run_wf q m1 m2 b W1 Hok2 R2) as (W2 & X2 & Ob).
    destruct (union_total m2 a b W2) as (m3 & t3 & E). congruence.
  - apply andb_true_iff in Hok as [Hok1 Hok2].
    destruct (run p m) as [[m1 a]|] eqn:R1; cbn [bind] in H; [|eapply IHp; eauto].
    destruct (run_wf p m m1 a W Hok1 R1) as (W1 & X1 & Oa). apply (overflow_after_ext m m1 X1).
    destruct (run q m1) as [[m2 b]|] eqn:R2; cbn [bind] in H; [|eapply IHq; eauto].
    destruct (run_wf q m1 m2 b W1 Hok2 R2) as (W2 & X2 & Ob).
    destruct (inter_total m2 a b W2) as (m3 & t3 & E). congruence.
  - destruct (run p m) as [[m1 a]|] eqn:R1; cbn [bind] in H; [|eapply IHp; eauto].
    destruct (run_wf p m m1 a W Hok R1) as (W1 & X1 & Oa).
    destruct (complement_ok m1 a W1 Oa) as (r & E & _). rewrite E in H. discriminate.
  - apply andb_true_iff in Hok as [Hok1 Hok2].
    destruct (run p m) as [[m1 a]|] eqn:R1; cbn [bind] in H; [|eapply IHp; eauto].
    destruct (run_wf p m m1 a W Hok1 R1) as (W1 & X1 & Oa). apply (overflow_after_ext m m1 X1).
    destruct (run q m1) as [[m2 b]|] eqn:R2; cbn [bind] in H; [|eapply IHq; eauto].
    destruct (run_wf q m1 m2 b W1 Hok2 R2) as (W2 & X2 & Ob).
    unfold diff in H. destruct (complement_ok m2 b W2 Ob) as (r & E & _). rewrite E in H. cbn [bind] in H.
    destruct (inter_total m2 a r W2) as (m3 & t3 & E3). congruence.
  - destruct hi as [hi|]; apply andb_true_iff in Hok as [Hok1 Hok2]; apply N.leb_le in Hok2;
      (destruct (run p m) as [[m1 a]|] eqn:R1; cbn [bind] in H; [|eapply IHp; eauto]);
      destruct (run_wf p m m1 a W Hok1 R1) as (W1 & X1 & Oa); apply (overflow_after_ext m m1 X1).
    + unfold smt_loop in H. destruct (N.leb_spec lo hi); [|discriminate].
      apply (mk_loop_none_after m1 a (lr_finite lo hi) W1 Oa); [unfold lr_valid, lr_finite; lia | exact H].
    + unfold Constructors.loop_inf in H.
      apply (mk_loop_none_after m1 a (lr_infinite lo) W1 Oa); [exact Hok2 | exact H].
Qed.
