(* RunProofs.v -- C01, constructor layer: the interpreter [run] of construction programs (the calls the
   public API makes for each SMT-LIB regex operator) and its correctness against the SMT-LIB
   denotation [denote] of Denote.v, from ANY well-formed manager (history independence).
   [run] is specification glue (an executable model-level helper), hence defined here.
   The soundness of the syntactic inclusion test used by the union constructor (property C16,
   InclusionProofs.v) is an explicit premise [inclusion_sound]. *)
Require Import Base CharSet Partition PartitionSpec LoopRange Regex Inclusion Constructors Denote Sem.
Require Import Lang ManagerProofs ConstructorProofs.
Open Scope N_scope.

Fixpoint run (p : prog) (m : mgr) : option (mgr * re) :=
  match p with
  | PNone => Some (m, m_empty m)
  | PEps => Some (m, m_eps m)
  | PAll => Some (m, m_full m)
  | PAllChar => Some (m, m_sigma m)
  | PRange a b => range m a b
  | PStr w => mstr m w
  | PConcat p q => do (m1, a) <- run p m; do (m2, b) <- run q m1; concat a m2 b
  | PUnion p q => do (m1, a) <- run p m; do (m2, b) <- run q m1; union m2 a b
  | PInter p q => do (m1, a) <- run p m; do (m2, b) <- run q m1; inter m2 a b
  | PComp p => do (m1, a) <- run p m; do r <- complement m1 a; Some (m1, r)
  | PDiff p q => do (m1, a) <- run p m; do (m2, b) <- run q m1; diff m2 a b
  | PLoop p lo (Some hi) => do (m1, a) <- run p m; smt_loop m1 a lo hi
  | PLoop p lo None => do (m1, a) <- run p m; loop_inf m1 a lo
  | PDeriv _ _ => None
  end.

(* programs the API accepts: range bounds ordered and within the alphabet, literal strings made of
   valid characters, loop bounds within u32, no derivative nodes *)
Fixpoint prog_ok (p : prog) : bool :=
  match p with
  | PNone | PEps | PAll | PAllChar => true
  | PRange a b => (a <=? b) && (b <=? MAXC)
  | PStr w => goodwb w
  | PConcat p q | PUnion p q | PInter p q | PDiff p q => prog_ok p && prog_ok q
  | PComp p => prog_ok p
  | PLoop p lo (Some hi) => prog_ok p && (hi <=? U32MAX)
  | PLoop p lo None => prog_ok p && (lo <=? U32MAX)
  | PDeriv _ _ => false
  end.

(* C16 (proved in InclusionProofs.v): included_in never claims an inclusion that does not hold *)
Definition inclusion_sound : Prop := forall m, wf m -> inclusion_sound_on m.

Theorem run_correct : inclusion_sound -> forall p m m' t,
  wf m -> prog_ok p = true -> run p m = Some (m', t) -> post m m' t (denote p).
Proof.
  intros Hsub. induction p as [| | | |a b|s|p IHp q IHq|p IHp q IHq|p IHp q IHq|p IHp|p IHp q IHq|p IHp lo hi|p IHp c];
    intros m m' t W Hok H; cbn [run prog_ok] in H, Hok.
  - inversion H; subst. apply empty_ok; auto.
  - inversion H; subst. apply eps_ok; auto.
  - inversion H; subst. apply full_ok; auto.
  - inversion H; subst. apply sigma_ok; auto.
  - destruct (range_ok m a b m' t W H) as (H1 & H2 & Hp). eapply post_weaken; [exact Hp|].
    apply lang_eq_of_equiv. intros w. cbn [denote]. split; intros (c & -> & Hc); exists c; split; auto.
    + unfold good. repeat split; lia.
    + tauto.
  - destruct (mstr_ok m s m' t W H) as (_ & Hp). exact Hp.
  - apply andb_true_iff in Hok as [Hok1 Hok2].
    destruct (run p m) as [[m1 a]|] eqn:R1; cbn [bind] in H; [|discriminate].
    destruct (run q m1) as [[m2 b]|] eqn:R2; cbn [bind] in H; [|discriminate].
    destruct (IHp m m1 a W Hok1 R1) as (W1 & X1 & Oa & La).
    destruct (IHq m1 m2 b W1 Hok2 R2) as (W2 & X2 & Ob & Lb).
    apply (concat_ok a m2 b m' t W2 (ext_owned m1 m2 a X2 Oa) Ob) in H.
    apply (post_ext m m2 m' t _ (ext_trans _ _ _ X1 X2)). eapply post_weaken; [exact H|].
    cbn [denote]. apply lang_eq_concat; auto.
  - apply andb_true_iff in Hok as [Hok1 Hok2].
    destruct (run p m) as [[m1 a]|] eqn:R1; cbn [bind] in H; [|discriminate].
    destruct (run q m1) as [[m2 b]|] eqn:R2; cbn [bind] in H; [|discriminate].
    destruct (IHp m m1 a W Hok1 R1) as (W1 & X1 & Oa & La).
    destruct (IHq m1 m2 b W1 Hok2 R2) as (W2 & X2 & Ob & Lb).
    apply (union_ok m2 a b m' t W2 (Hsub m2 W2) (ext_owned m1 m2 a X2 Oa) Ob) in H.
    apply (post_ext m m2 m' t _ (ext_trans _ _ _ X1 X2)). eapply post_weaken; [exact H|].
    cbn [denote]. intros w Hg. rewrite (La w Hg), (Lb w Hg). tauto.
  - apply andb_true_iff in Hok as [Hok1 Hok2].
    destruct (run p m) as [[m1 a]|] eqn:R1; cbn [bind] in H; [|discriminate].
    destruct (run q m1) as [[m2 b]|] eqn:R2; cbn [bind] in H; [|discriminate].
    destruct (IHp m m1 a W Hok1 R1) as (W1 & X1 & Oa & La).
    destruct (IHq m1 m2 b W1 Hok2 R2) as (W2 & X2 & Ob & Lb).
    apply (inter_ok m2 a b m' t W2 (ext_owned m1 m2 a X2 Oa) Ob) in H.
    apply (post_ext m m2 m' t _ (ext_trans _ _ _ X1 X2)). eapply post_weaken; [exact H|].
    cbn [denote]. intros w Hg. rewrite (La w Hg), (Lb w Hg). tauto.
  - destruct (run p m) as [[m1 a]|] eqn:R1; cbn [bind] in H; [|discriminate].
    destruct (IHp m m1 a W Hok R1) as (W1 & X1 & Oa & La).
    destruct (complement_ok m1 a W1 Oa) as (r & E & Or & Lr). rewrite E in H. cbn [bind] in H.
    inversion H; subst m' t. split; [exact W1|]. split; [exact X1|]. split; [exact Or|].
    cbn [denote]. intros w Hg. rewrite (Lr w Hg), (La w Hg). tauto.
  - apply andb_true_iff in Hok as [Hok1 Hok2].
    destruct (run p m) as [[m1 a]|] eqn:R1; cbn [bind] in H; [|discriminate].
    destruct (run q m1) as [[m2 b]|] eqn:R2; cbn [bind] in H; [|discriminate].
    destruct (IHp m m1 a W Hok1 R1) as (W1 & X1 & Oa & La).
    destruct (IHq m1 m2 b W1 Hok2 R2) as (W2 & X2 & Ob & Lb).
    apply (diff_ok m2 a b m' t W2 (ext_owned m1 m2 a X2 Oa) Ob) in H.
    apply (post_ext m m2 m' t _ (ext_trans _ _ _ X1 X2)). eapply post_weaken; [exact H|].
    cbn [denote]. intros w Hg. rewrite (La w Hg), (Lb w Hg). tauto.
  - assert (Hloop : forall (A B : lang), lang_eq A B -> lang_eq (l_bounds A lo hi) (l_bounds B lo hi)).
    { intros A B HAB w Hg. unfold l_bounds. split; intros (n & Hn & Hp); exists n; split; auto;
        apply (lang_eq_pow A B n HAB w Hg); auto. }
    destruct hi as [hi|]; apply andb_true_iff in Hok as [Hok1 Hok2]; apply N.leb_le in Hok2;
      (destruct (run p m) as [[m1 a]|] eqn:R1; cbn [bind] in H; [|discriminate]);
      destruct (IHp m m1 a W Hok1 R1) as (W1 & X1 & Oa & La).
    + apply (smt_loop_ok m1 a lo hi m' t W1 Oa Hok2) in H.
      apply (post_ext m m1 m' t _ X1). eapply post_weaken; [exact H|]. apply Hloop. exact La.
    + apply (loop_inf_ok m1 a lo m' t W1 Oa Hok2) in H.
      apply (post_ext m m1 m' t _ X1). eapply post_weaken; [exact H|]. apply Hloop. exact La.
  - discriminate.
Qed.

(* the public nullable flag of the constructed term *)
Theorem nullable_run : inclusion_sound -> forall p m m' t,
  wf m -> prog_ok p = true -> run p m = Some (m', t) -> (rnul t = true <-> denote p []).
Proof.
  intros Hsub p m m' t W Hok H. destruct (run_correct Hsub p m m' t W Hok H) as (W' & _ & Ot & HL).
  rewrite (nullable_owned m' t W' Ot). apply HL. constructor.
Qed.

(* well-formedness alone does not need the inclusion premise *)
Theorem run_wf : forall p m m' t,
  wf m -> prog_ok p = true -> run p m = Some (m', t) -> wf m' /\ ext m m' /\ owned m' t.
Proof.
  induction p as [| | | |a b|s|p IHp q IHq|p IHp q IHq|p IHp q IHq|p IHp|p IHp q IHq|p IHp lo hi|p IHp c];
    intros m m' t W Hok H; cbn [run prog_ok] in H, Hok.
  - inversion H; subst. exact (post_wf _ _ _ _ (empty_ok m' W)).
  - inversion H; subst. exact (post_wf _ _ _ _ (eps_ok m' W)).
  - inversion H; subst. exact (post_wf _ _ _ _ (full_ok m' W)).
  - inversion H; subst. exact (post_wf _ _ _ _ (sigma_ok m' W)).
  - eapply range_wf; eauto.
  - eapply mstr_wf; eauto.
  - apply andb_true_iff in Hok as [Hok1 Hok2].
    destruct (run p m) as [[m1 a]|] eqn:R1; cbn [bind] in H; [|discriminate].
    destruct (run q m1) as [[m2 b]|] eqn:R2; cbn [bind] in H; [|discriminate].
    destruct (IHp m m1 a W Hok1 R1) as (W1 & X1 & Oa). destruct (IHq m1 m2 b W1 Hok2 R2) as (W2 & X2 & Ob).
    destruct (concat_wf a m2 b m' t W2 (ext_owned m1 m2 a X2 Oa) Ob H) as (W3 & X3 & Ot).
    split; auto. split; auto. eapply ext_trans; [exact X1|]. eapply ext_trans; eauto.
  - apply andb_true_iff in Hok as [Hok1 Hok2].
    destruct (run p m) as [[m1 a]|] eqn:R1; cbn [bind] in H; [|discriminate].
    destruct (run q m1) as [[m2 b]|] eqn:R2; cbn [bind] in H; [|discriminate].
    destruct (IHp m m1 a W Hok1 R1) as (W1 & X1 & Oa). destruct (IHq m1 m2 b W1 Hok2 R2) as (W2 & X2 & Ob).
    destruct (union_wf m2 a b m' t W2 (ext_owned m1 m2 a X2 Oa) Ob H) as (W3 & X3 & Ot).
    split; auto. split; auto. eapply ext_trans; [exact X1|]. eapply ext_trans; eauto.
  - apply andb_true_iff in Hok as [Hok1 Hok2].
    destruct (run p m) as [[m1 a]|] eqn:R1; cbn [bind] in H; [|discriminate].
    destruct (run q m1) as [[m2 b]|] eqn:R2; cbn [bind] in H; [|discriminate].
    destruct (IHp m m1 a W Hok1 R1) as (W1 & X1 & Oa). destruct (IHq m1 m2 b W1 Hok2 R2) as (W2 & X2 & Ob).
    destruct (inter_wf m2 a b m' t W2 (ext_owned m1 m2 a X2 Oa) Ob H) as (W3 & X3 & Ot).
    split; auto. split; auto. eapply ext_trans; [exact X1|]. eapply ext_trans; eauto.
  - destruct (run p m) as [[m1 a]|] eqn:R1; cbn [bind] in H; [|discriminate].
    destruct (IHp m m1 a W Hok R1) as (W1 & X1 & Oa).
    destruct (complement_ok m1 a W1 Oa) as (r & E & Or & _). rewrite E in H. cbn [bind] in H.
    inversion H; subst. auto.
  - apply andb_true_iff in Hok as [Hok1 Hok2].
    destruct (run p m) as [[m1 a]|] eqn:R1; cbn [bind] in H; [|discriminate].
    destruct (run q m1) as [[m2 b]|] eqn:R2; cbn [bind] in H; [|discriminate].
    destruct (IHp m m1 a W Hok1 R1) as (W1 & X1 & Oa). destruct (IHq m1 m2 b W1 Hok2 R2) as (W2 & X2 & Ob).
    destruct (diff_wf m2 a b m' t W2 (ext_owned m1 m2 a X2 Oa) Ob H) as (W3 & X3 & Ot).
    split; auto. split; auto. eapply ext_trans; [exact X1|]. eapply ext_trans; eauto.
  - destruct hi as [hi|]; apply andb_true_iff in Hok as [Hok1 Hok2]; apply N.leb_le in Hok2;
      (destruct (run p m) as [[m1 a]|] eqn:R1; cbn [bind] in H; [|discriminate]);
      destruct (IHp m m1 a W Hok1 R1) as (W1 & X1 & Oa).
    + destruct (post_wf _ _ _ _ (smt_loop_ok m1 a lo hi m' t W1 Oa Hok2 H)) as (W3 & X3 & Ot).
      split; auto. split; auto. eapply ext_trans; eauto.
    + destruct (post_wf _ _ _ _ (loop_inf_ok m1 a lo m' t W1 Oa Hok2 H)) as (W3 & X3 & Ot).
      split; auto. split; auto. eapply ext_trans; eauto.
  - discriminate.
Qed.

(* ------------------------------------------------------------------------------------------ *)
(** * [run] never panics on an accepted program (D11 repaired: concat and mk_loop are total; the only
      remaining panics are the documented asserts of char/range/str, excluded by [prog_ok]). *)

Lemma inter_total m a b : wf m -> exists m' t, inter m a b = Some (m', t).
Proof. intros W. apply make_inter_total; auto. Qed.
Lemma union_total m a b : wf m -> exists m' t, union m a b = Some (m', t).
Proof. intros W. apply make_union_total; auto. Qed.

Theorem run_total : forall p m, wf m -> prog_ok p = true -> exists m' t, run p m = Some (m', t).
Proof.
  induction p as [| | | |a b|s|p IHp q IHq|p IHp q IHq|p IHp q IHq|p IHp|p IHp q IHq|p IHp lo hi|p IHp c];
    intros m W Hok; cbn [run prog_ok] in Hok |- *; try (eexists; eexists; reflexivity); try discriminate.
  - destruct (range m a b) as [[m' t]|] eqn:H; [eauto|]. apply (range_none m a b W) in H. exfalso. apply H.
    apply andb_true_iff in Hok as [H1 H2]. apply N.leb_le in H1, H2. auto.
  - apply goodwb_iff in Hok. apply mstr_total_any; assumption.
  - apply andb_true_iff in Hok as [Hok1 Hok2].
    destruct (IHp m W Hok1) as (m1 & a & R1). rewrite R1. cbn [bind].
    destruct (run_wf p m m1 a W Hok1 R1) as (W1 & X1 & Oa).
    destruct (IHq m1 W1 Hok2) as (m2 & b & R2). rewrite R2. cbn [bind].
    apply concat_total_any.
  - apply andb_true_iff in Hok as [Hok1 Hok2].
    destruct (IHp m W Hok1) as (m1 & a & R1). rewrite R1. cbn [bind].
    destruct (run_wf p m m1 a W Hok1 R1) as (W1 & X1 & Oa).
    destruct (IHq m1 W1 Hok2) as (m2 & b & R2). rewrite R2. cbn [bind].
    destruct (run_wf q m1 m2 b W1 Hok2 R2) as (W2 & X2 & Ob).
    apply union_total. exact W2.
  - apply andb_true_iff in Hok as [Hok1 Hok2].
    destruct (IHp m W Hok1) as (m1 & a & R1). rewrite R1. cbn [bind].
    destruct (run_wf p m m1 a W Hok1 R1) as (W1 & X1 & Oa).
    destruct (IHq m1 W1 Hok2) as (m2 & b & R2). rewrite R2. cbn [bind].
    destruct (run_wf q m1 m2 b W1 Hok2 R2) as (W2 & X2 & Ob).
    apply inter_total. exact W2.
  - destruct (IHp m W Hok) as (m1 & a & R1). rewrite R1. cbn [bind].
    destruct (run_wf p m m1 a W Hok R1) as (W1 & X1 & Oa).
    destruct (complement_ok m1 a W1 Oa) as (r & E & _). rewrite E. cbn [bind]. eauto.
  - apply andb_true_iff in Hok as [Hok1 Hok2].
    destruct (IHp m W Hok1) as (m1 & a & R1). rewrite R1. cbn [bind].
    destruct (run_wf p m m1 a W Hok1 R1) as (W1 & X1 & Oa).
    destruct (IHq m1 W1 Hok2) as (m2 & b & R2). rewrite R2. cbn [bind].
    destruct (run_wf q m1 m2 b W1 Hok2 R2) as (W2 & X2 & Ob).
    unfold diff. destruct (complement_ok m2 b W2 Ob) as (r & E & _). rewrite E. cbn [bind].
    apply inter_total. exact W2.
  - destruct hi as [hi|]; apply andb_true_iff in Hok as [Hok1 Hok2];
      destruct (IHp m W Hok1) as (m1 & a & R1); rewrite R1; cbn [bind].
    + unfold smt_loop. destruct (lo <=? hi); [apply mk_loop_total_any | eauto].
    + unfold Constructors.loop_inf. apply mk_loop_total_any.
Qed.

(* the converse reading: an accepted program never makes the crate panic *)
Theorem run_none : forall p m, wf m -> prog_ok p = true -> run p m <> None.
Proof. intros p m W Hok H. destruct (run_total p m W Hok) as (m' & t & E). congruence. Qed.
