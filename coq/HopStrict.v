(* HopStrict.v -- C04: the strict reading of partitions.rs / fast_sets.rs / minimizer.rs / minimize.
   Minimizer.v indexes vectors with [nth _ _ default] and [upd] (out of range = no change).  Here every
   vector access of the Rust code is checked (nth_error / upds), every usize subtraction is checked,
   slices need start <= end <= len, FastSet operations need x < max, the fuel is kept, and every
   debug_assert! of the code is a check: a failing check yields None (= panic).  Under aut_wf the strict
   functions agree with the model of Minimizer.v (minimize_strict), hence none of the model's defaults
   is ever reached and no assertion fires.  Definitions and proofs (this is not a model file). *)
Require Import Base CharSet Partition PartitionSpec Automaton BuilderSpec Minimizer NerodeProofs.
Require Import HopPart HopAbs HopSplit HopLoop HopcroftProofs.
Require AutomatonProofs LinkProofs.
From Coq Require Import Permutation.
Open Scope nat_scope.

(* ------------------------------------------------------------------ 1. checked primitives *)
Fixpoint upds {A} (l : list A) (i : nat) (x : A) : option (list A) :=
  match l, i with
  | [], _ => None
  | _ :: t, O => Some (x :: t)
  | y :: t, S k => option_map (cons y) (upds t k x)
  end.
Definition swap_s {A} (l : list A) (i j : nat) : option (list A) :=
  do a <- nth_error l i; do b <- nth_error l j; do l1 <- upds l i b; upds l1 j a.
Definition sub_s (a b : nat) : option nat := if Nat.leb b a then Some (a - b) else None.
Fixpoint map_opt {A B} (f : A -> option B) (l : list A) : option (list B) :=
  match l with
  | [] => Some []
  | x :: t => do y <- f x; do r <- map_opt f t; Some (y :: r)
  end.
Definition fold_opt {S X} (f : S -> X -> option S) (l : list X) (s : S) : option S :=
  fold_left (fun o x => match o with Some s => f s x | None => None end) l (Some s).

(* ------------------------------------------------------------------ 2. partitions.rs *)
Definition bp_block_size_s (p : bpart) (i : nat) : option nat :=
  do se <- nth_error (bp_block p) i; sub_s (snd se) (fst se).
Definition bp_elements_s (p : bpart) (i : nat) : option (list nat) :=
  do se <- nth_error (bp_block p) i;
  if Nat.leb (fst se) (snd se) && Nat.leb (snd se) (length (bp_seg p))
  then Some (firstn (snd se - fst se) (skipn (fst se) (bp_seg p))) else None.
Fixpoint refine_scan_s (pr : nat -> option bool) (seg : list nat) (start len k j : nat) : option (list nat * nat) :=
  match len with
  | O => Some (seg, j)
  | S l => do x <- nth_error seg (start + k);
           do b <- pr x;
           if b then do seg' <- (if Nat.ltb j k then swap_s seg (start + k) (start + j) else Some seg);
                     refine_scan_s pr seg' start l (S k) (S j)
           else refine_scan_s pr seg start l (S k) j
  end.
Definition bp_refine_s (p : bpart) (i : nat) (pr : nat -> option bool) : option (bpart * (nat * nat)) :=
  do se <- nth_error (bp_block p) i;
  let '(s, e) := se in
  if Nat.leb s e && Nat.leb e (length (bp_seg p)) then             (* slice_mut *)
    do sj <- refine_scan_s pr (bp_seg p) s (e - s) 0 0;
    let '(seg, j) := sj in
    if Nat.eqb j 0 then Some ({| bp_block := bp_block p; bp_seg := seg |}, (0, i))
    else if Nat.eqb j (e - s) then Some ({| bp_block := bp_block p; bp_seg := seg |}, (i, 0))
    else if Nat.ltb (s + j) e && Nat.leb e (length seg) then      (* debug_assert! in split_block / add_block *)
      do blocks <- upds (bp_block p) i (s, s + j);
      Some ({| bp_block := blocks ++ [(s + j, e)]; bp_seg := seg |}, (i, length (bp_block p)))
    else None
  else None.
Definition fp_block_id_s (p : fpart) (x : nat) : option nat := nth_error (fp_bid p) x.
Definition fp_refine_s (p : fpart) (i : nat) (pr : nat -> option bool) : option (fpart * (nat * nat)) :=
  do r <- bp_refine_s (fp_base p) i pr;
  let '(b, (b1, b2)) := r in
  if negb (Nat.eqb b1 0) && negb (Nat.eqb b2 0) then
    do els <- bp_elements_s b b2;
    do bid' <- fold_opt (fun acc x => upds acc x b2) els (fp_bid p);
    Some ({| fp_base := b; fp_bid := bid' |}, (b1, b2))
  else Some ({| fp_base := b; fp_bid := fp_bid p |}, (b1, b2)).

(* ------------------------------------------------------------------ 3. minimizer.rs *)
Definition sl_add_s (l : slist) (c cls : nat) (active : bool) : option slist :=
  let i := length (sl_list l) in
  let lst := sl_list l ++ [(c, cls)] in
  if active then
    do lst' <- (if Nat.ltb (sl_active l) i then swap_s lst (sl_active l) i else Some lst);
    Some {| sl_active := S (sl_active l); sl_list := lst' |}
  else Some {| sl_active := sl_active l; sl_list := lst |}.
Definition add_splitter_s (sp : list slist) (b c cls : nat) (active : bool) : option (list slist) :=
  let sp := if Nat.leb (length sp) b then sp ++ repeat sl_empty (S b - length sp) else sp in
  do l <- nth_error sp b; do l' <- sl_add_s l c cls active; upds sp b l'.

(* FastSet: every operation asserts x < max *)
Definition fs_insert_s (max : nat) (s : list nat) (x : nat) : option (list nat) :=
  if Nat.ltb x max then Some (fs_insert s x) else None.
Definition fs_contains_s (max : nat) (s : list nat) (x : nat) : option bool :=
  if Nat.ltb x max then Some (existsb (Nat.eqb x) s) else None.
Definition fs_remove_s (max : nat) (s : list nat) (x : nat) : option (list nat) :=
  if Nat.ltb x max then Some (fs_remove s x) else None.

Section Strict.
  (* pinned = true: SplitterSet::take_list as in the pinned crate (self.list[b], defect D10);
     pinned = false: after the repair (a missing list is an empty list) *)
  Context (pinned : bool) (delta : nat -> nat -> option nat) (is_final : nat -> option bool).

  Definition us_step_s (main : fpart) (i j na : nat) (ps : list bpart * list slist) (it : nat * (nat * nat))
    : option (list bpart * list slist) :=
    let '(idx, (c, cls)) := it in
    let active := Nat.ltb idx na in
    if Nat.eqb cls 0 then None else                                  (* debug_assert!(s.class != 0) *)
    do p <- nth_error (fst ps) c;
    do r <- bp_refine_s p cls (fun x => do y <- delta x c; do b <- fp_block_id_s main y; Some (Nat.eqb b i));
    let '(p', (class1, class2)) := r in
    do fl <- (if active then Some (true, true)
              else do s1 <- bp_block_size_s p' class1; do s2 <- bp_block_size_s p' class2;
                   Some (if Nat.leb s1 s2 then (true, false) else (false, true)));
    let '(a1, a2) := fl in
    do sp1 <- (if Nat.eqb class1 0 then Some (snd ps) else add_splitter_s (snd ps) i c class1 a1);
    do sp2 <- (if Nat.eqb class2 0 then Some sp1 else add_splitter_s sp1 j c class2 a2);
    do pred' <- upds (fst ps) c p';
    Some (pred', sp2).

  Definition update_splitters_s (m : mini) (i j : nat) : option mini :=
    do old <- (if pinned then nth_error (mn_split m) i else Some (nth i (mn_split m) sl_empty));   (* take_list *)
    let sp0 := upd (mn_split m) i sl_empty in
    do r <- fold_opt (us_step_s (mn_main m) i j (sl_active old))
                     (combine (seq 0 (length (sl_list old))) (sl_list old)) (mn_pred m, sp0);
    Some {| mn_main := mn_main m; mn_pred := fst r; mn_split := snd r; mn_active_block := mn_active_block m |}.

  Definition mini_new_s (n alpha : nat) : option mini :=
    do sp <- fold_opt (fun sp c => add_splitter_s sp 1 c 1 false) (seq 0 alpha) [];
    let m := {| mn_main := fp_new n; mn_pred := repeat (bp_new n) alpha; mn_split := sp; mn_active_block := 0 |} in
    if negb (Nat.eqb (bp_num_blocks (fp_base (mn_main m))) 2) then None else      (* debug_assert_eq! *)
    do r <- fp_refine_s (mn_main m) 1 is_final;
    let '(main', (i, j)) := r in
    let m := {| mn_main := main'; mn_pred := mn_pred m; mn_split := mn_split m; mn_active_block := 0 |} in
    if negb (Nat.eqb i 0) && negb (Nat.eqb j 0) then
      if Nat.eqb i 1 && Nat.eqb j 2 then update_splitters_s m i j else None       (* debug_assert! *)
    else Some m.

  Definition refine_block_with_splitter_s (m : mini) (schar sblock b : nat) : option mini :=
    let main := mn_main m in
    do r <- fp_refine_s main b (fun y => do z <- delta y schar; do bz <- fp_block_id_s main z; Some (Nat.eqb bz sblock));
    let '(main', (i, j)) := r in
    let m' := {| mn_main := main'; mn_pred := mn_pred m; mn_split := mn_split m; mn_active_block := mn_active_block m |} in
    if Nat.eqb i 0 then None                                          (* debug_assert!(i != 0) *)
    else if Nat.eqb j 0 then Some m'
    else if Nat.eqb i b then update_splitters_s m' i j else None.     (* debug_assert_eq!(i, b) *)

  Definition refine_with_splitter_s (m : mini) (sblock schar sclass : nat) : option mini :=
    let max := bp_num_blocks (fp_base (mn_main m)) in                 (* FastSet::new(num_blocks) *)
    do p <- nth_error (mn_pred m) schar;
    do els <- bp_elements_s p sclass;
    do set <- fold_opt (fun s x => do b <- fp_block_id_s (mn_main m) x;
                                   do sz <- bp_block_size_s (fp_base (mn_main m)) b;
                                   if Nat.ltb 1 sz then fs_insert_s max s b else Some s) els [];
    do self_refine <- fs_contains_s max set sblock;
    do set <- (if self_refine then fs_remove_s max set sblock else Some set);
    do m <- fold_opt (fun m b => refine_block_with_splitter_s m schar sblock b) set m;
    if self_refine then refine_block_with_splitter_s m schar sblock sblock else Some m.

  Definition pick_splitter_s (m : mini) : option (option (mini * (nat * nat * nat))) :=
    let l := mn_split m in
    let has b := Nat.ltb 0 (sl_active (nth b l sl_empty)) in
    do cur <- nth_error l (mn_active_block m);                        (* l[b] in has_active_splitter *)
    let ob := if Nat.ltb 0 (sl_active cur) then Some (mn_active_block m)
              else (fix scan (bs : list nat) := match bs with [] => None | b :: t => if has b then Some b else scan t end)
                     (seq 0 (length l)) in
    match ob with
    | None => Some None
    | Some b =>
      do sl <- nth_error l b;                                         (* self.list[b] *)
      do na <- (if Nat.ltb 0 (sl_active sl) then sub_s (sl_active sl) 1 else None);   (* debug_assert!, -= 1 *)
      do cc <- nth_error (sl_list sl) na;                             (* list[self.num_active] *)
      let '(c, cls) := cc in
      do l' <- upds l b {| sl_active := na; sl_list := sl_list sl |};
      Some (Some ({| mn_main := mn_main m; mn_pred := mn_pred m; mn_split := l'; mn_active_block := b |}, (b, c, cls)))
    end.

  Fixpoint refine_s (fuel : nat) (n : nat) (m : mini) : option mini :=
    match fuel with
    | O => None
    | S f =>
      do idx <- sub_s (bp_num_blocks (fp_base (mn_main m))) 1;       (* index() = num_blocks() - 1 *)
      if Nat.ltb idx n then
        do o <- pick_splitter_s m;
        match o with
        | Some (m', (b, c, cls)) => do m2 <- refine_with_splitter_s m' b c cls; refine_s f n m2
        | None => Some m
        end
      else Some m
    end.
End Strict.

(* StateMapping::from_partition, State::remap_nodes, Automaton::remap_nodes *)
Definition remap_state_s (new_id old_id : list nat) (s : astate) : option astate :=
  do nid <- nth_error new_id (a_id s);
  do back <- nth_error old_id nid;                                    (* debug_assert!(is_class_rep) *)
  if negb (Nat.eqb back (a_id s)) then None else
  do succ <- map_opt (nth_error new_id) (a_succ s);
  do def <- (match a_default s with
             | Some d => do d' <- nth_error new_id d; Some (Some d')
             | None => Some None end);
  Some {| a_id := nid; a_final := a_final s; a_classes := a_classes s; a_succ := succ; a_default := def |}.
Definition remap_nodes_s (a : automaton) (new_id old_id : list nat) : option automaton :=
  do init <- nth_error new_id (initial a);
  do sts <- map_opt (fun io => do s <- nth_error (astates a) (snd io);
                               do s' <- remap_state_s new_id old_id s;
                               if Nat.eqb (a_id s') (fst io) then Some s' else None)   (* debug_assert!(id == i) *)
                    (combine (seq 0 (length old_id)) old_id);
  Some {| num_states := length old_id; num_final := length (filter a_final sts); initial := init; astates := sts |}.

Definition minimize_s (pinned : bool) (a : automaton) : option automaton :=
  match AutomatonProofs.compile_successors_s a with
  | None => None
  | Some t =>
    let n := num_states a in let alpha := ct_alpha t in
    let delta := AutomatonProofs.ct_eval_s t in
    let isf := fun i => option_map a_final (nth_error (astates a) i) in
    do m0 <- mini_new_s pinned delta isf n alpha;
    do m <- refine_s pinned delta (4 * n * alpha + 16) n m0;
    let p := mn_main m in
    do idx <- sub_s (bp_num_blocks (fp_base p)) 1;
    if Nat.ltb idx n then
      do new_id <- map_opt (fun s => do b <- fp_block_id_s p s; sub_s b 1) (seq 0 n);
      do old_id <- map_opt (fun b => if Nat.ltb 0 b then                              (* assert!(i > 0) *)
                                       do se <- nth_error (bp_block (fp_base p)) b;
                                       nth_error (bp_seg (fp_base p)) (fst se)
                                     else None) (seq 1 idx);
      remap_nodes_s a new_id old_id
    else Some a
  end.

(* ================================================================== proofs *)
(* ------------------------------------------------------------------ 5. primitives *)
Lemma upds_some {A} (l : list A) : forall i x, i < length l -> upds l i x = Some (upd l i x).
Proof.
  induction l as [|y t IH]; intros [|i] x H; cbn [length] in H; try lia; cbn [upds upd]; [reflexivity|].
  rewrite IH by lia. reflexivity.
Qed.

Lemma nth_error_some {A} (d : A) (l : list A) : forall i, i < length l -> nth_error l i = Some (nth i l d).
Proof. induction l as [|y t IH]; intros [|i] H; cbn [length] in H; try lia; cbn [nth_error nth]; auto. apply IH. lia. Qed.

Lemma swap_s_some {A} (d : A) (l : list A) i j : i < length l -> j < length l -> swap_s l i j = Some (swap d l i j).
Proof.
  intros Hi Hj. unfold swap_s, swap. rewrite (nth_error_some d l i Hi), (nth_error_some d l j Hj). cbn [bind].
  rewrite upds_some by exact Hi. cbn [bind]. apply upds_some. rewrite hp_upd_length. exact Hj.
Qed.

Lemma sub_s_some a b : b <= a -> sub_s a b = Some (a - b).
Proof. intros H. unfold sub_s. replace (Nat.leb b a) with true by (symmetry; apply Nat.leb_le; exact H). reflexivity. Qed.

Lemma Forall_upd {A} (P : A -> Prop) (l : list A) : forall i x, Forall P l -> P x -> Forall P (upd l i x).
Proof.
  induction l as [|y t IH]; intros [|i] x Hl Hx; cbn [upd]; auto; inversion Hl; subst; constructor; auto.
Qed.

Lemma Forall_nth_lt {A} (P : A -> Prop) (d : A) (l : list A) i : Forall P l -> i < length l -> P (nth i l d).
Proof. intros H Hi. rewrite Forall_forall in H. apply H. apply nth_In. exact Hi. Qed.

Lemma Forall_swap {A} (P : A -> Prop) (d : A) (l : list A) i j :
  Forall P l -> i < length l -> j < length l -> Forall P (swap d l i j).
Proof.
  intros H Hi Hj. unfold swap. apply Forall_upd; [apply Forall_upd; [exact H|]|]; apply Forall_nth_lt; assumption.
Qed.

Lemma swap_length {A} (d : A) (l : list A) i j : length (swap d l i j) = length l.
Proof. unfold swap. rewrite !hp_upd_length. reflexivity. Qed.

Lemma fold_opt_agree {S X} (I : S -> list X -> Prop) (f : S -> X -> S) (fs : S -> X -> option S) :
  (forall s x r, I s (x :: r) -> fs s x = Some (f s x) /\ I (f s x) r) ->
  forall l s, I s l -> fold_opt fs l s = Some (fold_left f l s).
Proof.
  intros Hstep. unfold fold_opt. induction l as [|x r IH]; intros s Hs; cbn [fold_left]; [reflexivity|].
  destruct (Hstep s x r Hs) as [-> Hn]. apply IH. exact Hn.
Qed.

Lemma map_opt_some {A B} (f : A -> option B) (g : A -> B) : forall l,
  (forall x, In x l -> f x = Some (g x)) -> map_opt f l = Some (map g l).
Proof.
  induction l as [|x t IH]; intros H; cbn [map_opt map]; [reflexivity|].
  rewrite (H x (or_introl eq_refl)). cbn [bind]. rewrite IH by (intros y Hy; apply H; right; exact Hy). reflexivity.
Qed.

(* ------------------------------------------------------------------ 6. partitions *)
Lemma refine_scan_s_ok (prs : nat -> option bool) (pr : nat -> bool) start : forall len seg k j,
  start + k + len <= length seg -> j <= k -> Forall (fun x => prs x = Some (pr x)) seg ->
  refine_scan_s prs seg start len k j = Some (refine_scan pr seg start len k j).
Proof.
  induction len as [|len IH]; intros seg k j Hlen Hjk HF; cbn [refine_scan_s refine_scan]; [reflexivity|].
  assert (Hk : start + k < length seg) by lia.
  rewrite (nth_error_some 0 seg _ Hk). cbn [bind].
  rewrite (Forall_nth_lt _ 0 seg _ HF Hk). cbn [bind].
  destruct (pr (nth (start + k) seg 0)).
  - destruct (Nat.ltb j k) eqn:Hlt.
    + apply Nat.ltb_lt in Hlt. rewrite (swap_s_some 0) by lia. cbn [bind].
      apply IH; [rewrite swap_length; lia|lia|apply Forall_swap; [exact HF|lia|lia]].
    + cbn [bind]. apply IH; [lia|lia|exact HF].
  - apply IH; [lia|lia|exact HF].
Qed.

Lemma blk_le n p i : bp_wf n p -> fst (blk p i) <= snd (blk p i).
Proof.
  intros W. destruct (Nat.eq_dec i 0) as [->|Hi]; [rewrite (bw_b0 _ _ W); simpl; lia|].
  destruct (le_lt_dec (nblk p) i) as [Hge|Hlt].
  - unfold blk. rewrite nth_overflow by exact Hge. simpl. lia.
  - assert (R : 1 <= i < nblk p) by lia. pose proof (bw_rng _ _ W i R). lia.
Qed.

Lemma bp_block_size_s_ok n p i : bp_wf n p -> i < nblk p -> bp_block_size_s p i = Some (bp_block_size p i).
Proof.
  intros W Hi. unfold bp_block_size_s, bp_block_size. rewrite (nth_error_some (0,0) _ i Hi). cbn [bind].
  pose proof (blk_le n p i W) as Hle. unfold blk in Hle. destruct (nth i (bp_block p) (0,0)) as [s e]. cbn [fst snd] in *.
  apply sub_s_some. exact Hle.
Qed.

Lemma bp_elements_s_ok n p i : bp_wf n p -> i < nblk p -> bp_elements_s p i = Some (bp_elements p i).
Proof.
  intros W Hi. unfold bp_elements_s, bp_elements. rewrite (nth_error_some (0,0) _ i Hi). cbn [bind].
  pose proof (blk_le n p i W) as Hle. pose proof (blk_snd_le n p i W) as Hsn. unfold blk in Hle, Hsn.
  destruct (nth i (bp_block p) (0,0)) as [s e]. cbn [fst snd] in *.
  replace (Nat.leb s e) with true by (symmetry; apply Nat.leb_le; exact Hle).
  replace (Nat.leb e (length (bp_seg p))) with true by (symmetry; apply Nat.leb_le; rewrite (bw_len _ _ W); exact Hsn).
  reflexivity.
Qed.

Lemma bp_refine_s_ok n p i prs pr : bp_wf n p -> 1 <= i < nblk p ->
  (forall x, x < n -> prs x = Some (pr x)) ->
  bp_refine_s p i prs = Some (bp_refine p i pr).
Proof.
  intros W Hi Hpr. unfold bp_refine_s, bp_refine.
  assert (Hil : i < length (bp_block p)) by (unfold nblk in Hi; lia).
  rewrite (nth_error_some (0,0) _ i Hil). cbn [bind].
  pose proof (bw_rng _ _ W i Hi) as Hr. unfold blk in Hr.
  destruct (nth i (bp_block p) (0,0)) as [s e]. cbn [fst snd] in Hr.
  pose proof (bw_len _ _ W) as Hlen.
  replace (Nat.leb s e) with true by (symmetry; apply Nat.leb_le; lia).
  replace (Nat.leb e (length (bp_seg p))) with true by (symmetry; apply Nat.leb_le; lia). cbn [andb].
  rewrite (refine_scan_s_ok prs pr s (e - s) (bp_seg p) 0 0); [|lia|lia|].
  2:{ apply Forall_forall. intros x Hx. apply Hpr. apply (bw_lt _ _ W). exact Hx. }
  cbn [bind].
  destruct (scan_facts pr (bp_seg p) s e) as [T' [F' [Hscan [Hperm _]]]]; [lia|lia|].
  rewrite Hscan.
  assert (HTF : length T' + length F' = e - s).
  { rewrite <- app_length, (Permutation_length Hperm). apply slice_length. lia. }
  destruct (Nat.eqb (length T') 0); [reflexivity|].
  destruct (Nat.eqb (length T') (e - s)) eqn:Hje; [reflexivity|]. apply Nat.eqb_neq in Hje.
  replace (Nat.ltb (s + length T') e) with true by (symmetry; apply Nat.ltb_lt; lia).
  replace (Nat.leb e (length (firstn s (bp_seg p) ++ T' ++ F' ++ skipn e (bp_seg p)))) with true.
  2:{ symmetry. apply Nat.leb_le. rewrite !app_length, firstn_length_le, skipn_length by lia. lia. }
  cbn [andb]. rewrite upds_some by exact Hil. reflexivity.
Qed.

Lemma fold_upds_ok (v : nat) : forall (l acc : list nat), (forall x, In x l -> x < length acc) ->
  fold_opt (fun a x => upds a x v) l acc = Some (fold_left (fun a x => upd a x v) l acc).
Proof.
  unfold fold_opt. induction l as [|y l IH]; intros acc H; cbn [fold_left]; [reflexivity|].
  rewrite upds_some by (apply H; left; reflexivity). apply IH. intros x Hx. rewrite hp_upd_length. apply H. right. exact Hx.
Qed.

Lemma fp_block_id_s_ok n p x : fp_wf n p -> x < n -> fp_block_id_s p x = Some (fp_block_id p x).
Proof. intros W Hx. unfold fp_block_id_s, fp_block_id. apply nth_error_some. rewrite (fw_len _ _ W). exact Hx. Qed.

Lemma fp_refine_s_ok n p i prs pr : fp_wf n p -> 1 <= i < nblk (fp_base p) ->
  (forall x, x < n -> prs x = Some (pr x)) ->
  fp_refine_s p i prs = Some (fp_refine p i pr).
Proof.
  intros W Hi Hpr. unfold fp_refine_s, fp_refine.
  rewrite (bp_refine_s_ok n (fp_base p) i prs pr (fw_base _ _ W) Hi Hpr). cbn [bind].
  destruct (bp_refine_spec n (fp_base p) i pr (fw_base _ _ W) Hi) as [Wb Hres].
  destruct (bp_refine (fp_base p) i pr) as [b [b1 b2]]. cbn [fst snd] in Wb, Hres.
  destruct (negb (Nat.eqb b1 0) && negb (Nat.eqb b2 0)) eqn:Hc; [|reflexivity].
  assert (Hb2 : b2 < nblk b).
  { inversion Hres as [? [Hnb ?] E|? [Hnb ?] E|Hnb ? ? ? E]; subst b1 b2; lia. }
  rewrite (bp_elements_s_ok n b b2 Wb Hb2). cbn [bind].
  rewrite fold_upds_ok; [reflexivity|].
  intros x Hx. rewrite (fw_len _ _ W). eapply (in_blk_lt n b b2); [exact Wb|exact Hx].
Qed.

(* ------------------------------------------------------------------ 7. splitter lists *)
Lemma sl_add_s_ok l c cls a : sl_add_s l c cls a = Some (sl_add l c cls a).
Proof.
  unfold sl_add_s, sl_add. destruct a; [|reflexivity].
  destruct (Nat.ltb (sl_active l) (length (sl_list l))) eqn:Hlt; [|reflexivity].
  apply Nat.ltb_lt in Hlt. rewrite (swap_s_some (0,0)) by (rewrite app_length; simpl; lia). reflexivity.
Qed.

Lemma add_splitter_s_ok sp b c cls a : add_splitter_s sp b c cls a = Some (add_splitter sp b c cls a).
Proof.
  unfold add_splitter_s, add_splitter.
  set (sp1 := if Nat.leb (length sp) b then sp ++ repeat sl_empty (S b - length sp) else sp).
  assert (Hl : b < length sp1).
  { unfold sp1. destruct (Nat.leb (length sp) b) eqn:H.
    - apply Nat.leb_le in H. rewrite app_length, repeat_length. lia.
    - apply Nat.leb_gt in H. exact H. }
  rewrite (nth_error_some sl_empty sp1 b Hl). cbn [bind]. rewrite sl_add_s_ok. cbn [bind].
  apply upds_some. exact Hl.
Qed.

Section StrictProofs.
  Context (n alpha : nat) (delta : nat -> nat -> nat) (delta_s : nat -> nat -> option nat).
  Context (Hcl : closed_delta n alpha delta)
          (Hds : forall x c, x < n -> c < alpha -> delta_s x c = Some (delta x c)).

  Lemma us_step_s_ok main bid i j k old sp0 idx c cls rest pred sp :
    fp_wf n main -> i <> j -> bid_split n bid (fp_block_id main) i j ->
    usinv n alpha delta bid (fp_block_id main) i j k old sp0 ((idx, (c, cls)) :: rest) pred sp ->
    us_step_s delta_s main i j (sl_active old) (pred, sp) (idx, (c, cls)) =
    Some (us_step delta (fp_block_id main) i j (sl_active old) (pred, sp) (idx, (c, cls))).
  Proof.
    intros Wm Hij Hsp I.
    destruct (u_rest _ _ _ _ _ _ _ _ _ _ _ _ _ I idx c cls (or_introl eq_refl)) as [Hc [Hcls Hclass]].
    pose proof (u_pwf _ _ _ _ _ _ _ _ _ _ _ _ _ I c Hc) as Wc.
    pose proof (u_plen _ _ _ _ _ _ _ _ _ _ _ _ _ I) as Hpl.
    unfold us_step_s, us_step. cbn [fst snd].
    replace (Nat.eqb cls 0) with false by (symmetry; apply Nat.eqb_neq; lia).
    rewrite (nth_error_some (bp_new 0) pred c) by (rewrite Hpl; exact Hc). cbn [bind].
    fold (pc pred c).
    rewrite (bp_refine_s_ok n (pc pred c) cls _ (fun x => Nat.eqb (fp_block_id main (delta x c)) i) Wc Hcls).
    2:{ intros x Hx. rewrite (Hds x c Hx Hc). cbn [bind].
        rewrite (fp_block_id_s_ok n main _ Wm (Hcl x c Hx Hc)). reflexivity. }
    cbn [bind].
    destruct (bp_refine (pc pred c) cls (fun x => Nat.eqb (fp_block_id main (delta x c)) i)) as [p' [c1 c2]] eqn:Href.
    destruct (refine_class_facts n alpha delta bid (fp_block_id main) i j (pc pred c) cls c p' c1 c2
                Hcl Hc Hij Hsp Wc Hcls Hclass Href) as [W' [Hnb [U1 [U2 _]]]].
    assert (H1 : c1 < nblk p').
    { destruct (Nat.eq_dec c1 0) as [->|H0]; [pose proof (bw_nb _ _ W'); lia|apply (U1 H0)]. }
    assert (H2 : c2 < nblk p').
    { destruct (Nat.eq_dec c2 0) as [->|H0]; [pose proof (bw_nb _ _ W'); lia|apply (U2 H0)]. }
    rewrite (bp_block_size_s_ok n p' c1 W' H1), (bp_block_size_s_ok n p' c2 W' H2). cbn [bind].
    destruct (Nat.ltb idx (sl_active old)); cbn [bind].
    - destruct (Nat.eqb c1 0), (Nat.eqb c2 0); cbn [bind]; rewrite ?add_splitter_s_ok; cbn [bind];
        rewrite ?add_splitter_s_ok; cbn [bind]; rewrite upds_some by (rewrite Hpl; exact Hc); reflexivity.
    - destruct (Nat.leb (bp_block_size p' c1) (bp_block_size p' c2));
        destruct (Nat.eqb c1 0), (Nat.eqb c2 0); cbn [bind]; rewrite ?add_splitter_s_ok; cbn [bind];
        rewrite ?add_splitter_s_ok; cbn [bind]; rewrite upds_some by (rewrite Hpl; exact Hc); reflexivity.
  Qed.

  Lemma update_splitters_s_ok (m : mini) bid i j k :
    fp_wf n (mn_main m) -> 1 <= i < k -> j = k ->
    bid_split n bid (fp_block_id (mn_main m)) i j ->
    sinv n alpha delta bid k (mn_pred m) (mn_split m) ->
    update_splitters_s false delta_s m i j = Some (update_splitters delta m i j).
  Proof.
    intros Wm Hik Hjk Hsp S. unfold update_splitters_s. cbn [bind]. rewrite update_splitters_unfold. cbv zeta.
    destruct (us_init n alpha delta bid (fp_block_id (mn_main m)) i j k (mn_pred m) (mn_split m) Hcl Hik Hjk Hsp S)
      as [Hinit Hact].
    unfold spl in Hinit, Hact.
    set (old := nth i (mn_split m) sl_empty) in *.
    assert (Hij : i <> j) by lia.
    rewrite (fold_opt_agree
               (fun s rest => usinv n alpha delta bid (fp_block_id (mn_main m)) i j k old (mn_split m) rest (fst s) (snd s) /\
                              forall idx c cls, In (idx, (c, cls)) rest -> sl_acts old c -> idx < sl_active old)
               (us_step delta (fp_block_id (mn_main m)) i j (sl_active old))
               (us_step_s delta_s (mn_main m) i j (sl_active old))).
    - reflexivity.
    - intros [pred sp] [idx [c cls]] rest [I HA]. cbn [fst snd] in I. split.
      + apply (us_step_s_ok (mn_main m) bid i j k old (mn_split m) idx c cls rest pred sp Wm Hij Hsp I).
      + split.
        * apply (us_step_inv n alpha delta bid (fp_block_id (mn_main m)) i j k old (mn_split m) idx c cls rest pred sp); auto.
          apply (HA idx c cls). left. reflexivity.
        * intros idx' c' cls' Hin. apply (HA idx' c' cls'). right. exact Hin.
    - split; [exact Hinit|exact Hact].
  Qed.
End StrictProofs.

(* ------------------------------------------------------------------ 8. the loop *)
Lemma fold_opt_app {S X} (f : S -> X -> option S) l1 l2 s :
  fold_opt f (l1 ++ l2) s = match fold_opt f l1 s with Some s1 => fold_opt f l2 s1 | None => None end.
Proof.
  unfold fold_opt. rewrite fold_left_app. destruct (fold_left _ l1 (Some s)) as [s1|]; [reflexivity|].
  induction l2 as [|x l2 IH]; [reflexivity|exact IH].
Qed.

Lemma add_splitter_len sp b c cls a : length sp <= length (add_splitter sp b c cls a).
Proof.
  unfold add_splitter. rewrite hp_upd_length. destruct (Nat.leb (length sp) b); [rewrite app_length; lia|lia].
Qed.

Lemma cadd_len sp b c cls a : length sp <= length (cadd sp b c cls a).
Proof. unfold cadd. destruct (Nat.eqb cls 0); [lia|apply add_splitter_len]. Qed.

Section StrictLoop.
  Context (n alpha : nat) (delta : nat -> nat -> nat) (isf : nat -> bool) (E : nat -> nat -> Prop).
  Context (delta_s : nat -> nat -> option nat) (isf_s : nat -> option bool).
  Context (Env : env_ok n alpha delta isf E)
          (Hds : forall x c, x < n -> c < alpha -> delta_s x c = Some (delta x c))
          (Hfs : forall x, x < n -> isf_s x = Some (isf x))
          (Halpha : 1 <= alpha).

  Definition ab_ok (m : mini) : Prop := mn_active_block m < length (mn_split m).

  Lemma update_splitters_len m i j : length (mn_split m) <= length (mn_split (update_splitters delta m i j)).
  Proof.
    rewrite update_splitters_unfold. cbv zeta. cbn [mn_split].
    set (f := us_step delta (fp_block_id (mn_main m)) i j (sl_active (nth i (mn_split m) sl_empty))).
    assert (H : forall items ps, length (snd ps) <= length (snd (fold_left f items ps))).
    { induction items as [|[idx [c cls]] items IH]; intros [pred sp]; cbn [fold_left]; [lia|].
      eapply Nat.le_trans; [|apply IH]. unfold f. rewrite us_step_eq.
      destruct (bp_refine _ _ _) as [p' [c1 c2]]. destruct (if Nat.ltb idx _ then _ else _) as [a1 a2]. cbn [snd].
      eapply Nat.le_trans; [apply cadd_len|apply cadd_len]. }
    eapply Nat.le_trans; [|apply H]. cbn [snd]. rewrite hp_upd_length. lia.
  Qed.

  Lemma bid_split_refine m b pr main' : minv n alpha delta E m ->
    (forall x, x < n -> fp_block_id main' x =
       if Nat.eqb (bidm m x) b && negb (pr x) then km m else bidm m x) ->
    bid_split n (bidm m) (fp_block_id main') b (km m).
  Proof.
    intros I Hbid y Hy. rewrite (Hbid y Hy). pose proof (minv_bid_range n alpha delta E m y I Hy) as Hr.
    destruct (Nat.eqb (bidm m y) b) eqn:He; cbn [andb].
    - apply Nat.eqb_eq in He. left. split; [exact He|]. destruct (pr y); cbn [negb]; [left; exact He|right; reflexivity].
    - apply Nat.eqb_neq in He. right. split; [exact He|]. split; [reflexivity|lia].
  Qed.

  Lemma spred_s_ok m a C : minv n alpha delta E m -> a < alpha -> forall y, y < n ->
    (do z <- delta_s y a; do bz <- fp_block_id_s (mn_main m) z; Some (Nat.eqb bz C)) = Some (spred delta m a C y).
  Proof.
    intros I Ha y Hy. rewrite (Hds y a Hy Ha). cbn [bind].
    rewrite (fp_block_id_s_ok n (mn_main m) _ (mi_main _ _ _ _ _ I) (e_cl _ _ _ _ _ Env y a Hy Ha)). reflexivity.
  Qed.

  Lemma rbws_s_ok m a C b todo :
    minv n alpha delta E m -> a < alpha -> 1 <= C < km m -> todo_ok n delta m a C (b :: todo) ->
    refine_block_with_splitter_s false delta_s m a C b = Some (refine_block_with_splitter delta m a C b) /\
    (ab_ok m -> ab_ok (refine_block_with_splitter delta m a C b)).
  Proof.
    intros I Ha HC [Hnd [Hcl Hw]].
    destruct (Hw b (or_introl eq_refl)) as [Hb [xb [Hxb [Hbxb HCxb]]]].
    unfold refine_block_with_splitter_s. cbv zeta.
    rewrite (fp_refine_s_ok n (mn_main m) b _ (spred delta m a C) (mi_main _ _ _ _ _ I) Hb (spred_s_ok m a C I Ha)).
    cbn [bind]. rewrite rbws_unfold. cbv zeta.
    destruct (fp_refine_spec n (mn_main m) b (spred delta m a C) (mi_main _ _ _ _ _ I) Hb) as [W' R].
    destruct (fp_refine (mn_main m) b (spred delta m a C)) as [main' [i j]]. cbn [fst snd] in *.
    inversion R as [Hall Hk Hbid E1|Hnone Hk Hbid E1|Hk Hbid Hex1 Hex2 E1]; subst i j.
    - replace (Nat.eqb b 0) with false by (symmetry; apply Nat.eqb_neq; lia). cbn [Nat.eqb].
      split; [reflexivity|]. intros H; exact H.
    - exfalso. pose proof (Hnone xb Hxb Hbxb) as Hp. unfold spred in Hp. apply Nat.eqb_neq in Hp. contradiction.
    - replace (Nat.eqb b 0) with false by (symmetry; apply Nat.eqb_neq; lia).
      replace (Nat.eqb (nblk (fp_base (mn_main m))) 0) with false by (symmetry; apply Nat.eqb_neq; unfold km in Hb; lia).
      rewrite Nat.eqb_refl. split.
      + apply (update_splitters_s_ok n alpha delta delta_s (e_cl _ _ _ _ _ Env) Hds
                 {| mn_main := main'; mn_pred := mn_pred m; mn_split := mn_split m; mn_active_block := mn_active_block m |}
                 (bidm m) b (nblk (fp_base (mn_main m))) (km m)); cbn [mn_main mn_pred mn_split]; auto.
        * apply (bid_split_refine m b (spred delta m a C) main' I Hbid).
        * apply (mi_sinv _ _ _ _ _ I).
      + intros Hab. unfold ab_ok in *.
        pose proof (update_splitters_len (set_main m main') b (nblk (fp_base (mn_main m)))) as Hlen.
        rewrite update_splitters_unfold in *. cbv zeta in *. cbn [mn_active_block mn_split set_main] in *. lia.
  Qed.

  Lemma rbws_fold_s_ok a C : a < alpha -> forall todo m,
    minv n alpha delta E m -> respects n isf (bidm m) -> 1 <= C < km m ->
    todo_ok n delta m a C todo -> hinv n alpha delta (bidm m) (actm m) todo a C ->
    fold_opt (fun m b => refine_block_with_splitter_s false delta_s m a C b) todo m =
      Some (fold_left (fun m b => refine_block_with_splitter delta m a C b) todo m) /\
    (ab_ok m -> ab_ok (fold_left (fun m b => refine_block_with_splitter delta m a C b) todo m)).
  Proof.
    intros Ha. induction todo as [|b todo IH]; intros m I HR HC HT HI.
    - split; [reflexivity|auto].
    - unfold fold_opt. cbn [fold_left].
      destruct (rbws_s_ok m a C b todo I Ha HC HT) as [Hs Hab]. rewrite Hs.
      destruct (rbws_step n alpha delta isf E m a C b todo Env I HR Ha HC HT HI) as [I1 [HR1 [HC1 [HT1 [HI1 _]]]]].
      destruct (IH _ I1 HR1 HC1 HT1 HI1) as [Hs2 Hab2]. split; [exact Hs2|]. intros H. apply Hab2, Hab, H.
  Qed.

  Lemma rws_s_ok m C a cls :
    minv n alpha delta E m -> respects n isf (bidm m) -> ent (mn_split m) C a cls ->
    (forall todo, (forall x y, x < n -> y < n -> bidm m x = bidm m y ->
                     bidm m (delta x a) = C -> bidm m (delta y a) <> C -> In (bidm m x) todo) ->
                  hinv n alpha delta (bidm m) (actm m) todo a C) ->
    refine_with_splitter_s false delta_s m C a cls = Some (refine_with_splitter delta m C a cls) /\
    (ab_ok m -> ab_ok (refine_with_splitter delta m C a cls)).
  Proof.
    intros I HR He Hpick.
    destruct (rws_setup n alpha delta isf E m C a cls Env I He) as [HC [Ha [HT Hcov]]].
    destruct (si_ent _ _ _ _ _ _ _ (mi_sinv _ _ _ _ _ I) C a cls He) as [_ [_ [Hcls Hclass]]].
    pose proof (si_pwf _ _ _ _ _ _ _ (mi_sinv _ _ _ _ _ I) a Ha) as Wp.
    pose proof (si_plen _ _ _ _ _ _ _ (mi_sinv _ _ _ _ _ I)) as Hpl.
    destruct (rbws_fold_s_ok a C Ha _ m I HR HC HT (Hpick _ Hcov)) as [Hfold Hab].
    rewrite rws_unfold2. split; [|exact Hab].
    unfold refine_with_splitter_s. cbv zeta.
    rewrite (nth_error_some (bp_new 0) (mn_pred m) a) by (rewrite Hpl; exact Ha). cbn [bind]. fold (pc (mn_pred m) a).
    rewrite (bp_elements_s_ok n (pc (mn_pred m) a) cls Wp) by lia. cbn [bind].
    (* the candidate set *)
    assert (Hcand : fold_opt (fun s x => do b <- fp_block_id_s (mn_main m) x;
                                         do sz <- bp_block_size_s (fp_base (mn_main m)) b;
                                         if Nat.ltb 1 sz then fs_insert_s (bp_num_blocks (fp_base (mn_main m))) s b else Some s)
                             (bp_elements (pc (mn_pred m) a) cls) [] =
                    Some (cand m (bp_elements (pc (mn_pred m) a) cls) [])).
    { unfold cand. apply (fold_opt_agree (fun _ rest => forall x, In x rest -> x < n)).
      - intros s x r Hr. split; [|intros y Hy; apply Hr; right; exact Hy].
        assert (Hx : x < n) by (apply Hr; left; reflexivity).
        rewrite (fp_block_id_s_ok n (mn_main m) x (mi_main _ _ _ _ _ I) Hx). cbn [bind].
        pose proof (minv_bid_range n alpha delta E m x I Hx) as Hrg. unfold bidm, km in Hrg.
        rewrite (bp_block_size_s_ok n (fp_base (mn_main m)) _ (fw_base _ _ (mi_main _ _ _ _ _ I))) by lia. cbn [bind].
        destruct (Nat.ltb 1 _); [|reflexivity]. unfold fs_insert_s.
        replace (Nat.ltb (fp_block_id (mn_main m) x) (bp_num_blocks (fp_base (mn_main m)))) with true; [reflexivity|].
        symmetry. apply Nat.ltb_lt. unfold bp_num_blocks. unfold nblk in Hrg. lia.
      - intros x Hx. eapply (in_blk_lt n); [exact Wp|exact Hx]. }
    rewrite Hcand. cbn [bind].
    assert (HCm : Nat.ltb C (bp_num_blocks (fp_base (mn_main m))) = true).
    { apply Nat.ltb_lt. unfold km, nblk in HC. unfold bp_num_blocks. lia. }
    unfold fs_contains_s. rewrite HCm. cbn [bind].
    unfold rws_todo in Hfold |- *. cbv zeta in Hfold |- *.
    set (set0 := cand m (bp_elements (pc (mn_pred m) a) cls) []) in *.
    destruct (existsb (Nat.eqb C) set0).
    - unfold fs_remove_s. rewrite HCm. cbn [bind].
      rewrite fold_opt_app in Hfold.
      destruct (fold_opt (fun m0 b => refine_block_with_splitter_s false delta_s m0 a C b) (fs_remove set0 C) m) as [m1|];
        [|discriminate]. cbn [bind]. unfold fold_opt in Hfold. cbn [fold_left] in Hfold. exact Hfold.
    - cbn [bind]. rewrite app_nil_r in Hfold |- *. rewrite Hfold. reflexivity.
  Qed.

  (* ---------------------------------------------------------------- pick_splitter, refine *)
  Lemma scan_has_in has : forall bs b, scan_has has bs = Some b -> In b bs /\ has b = true.
  Proof.
    induction bs as [|x t IH]; intros b H; cbn [scan_has] in H; [discriminate|].
    destruct (has x) eqn:Hx.
    - inversion H; subst. split; [left; reflexivity|exact Hx].
    - fold (scan_has has t) in H. destruct (IH b H) as [H1 H2]. split; [right; exact H1|exact H2].
  Qed.

  Lemma pick_s_unfold m :
    pick_splitter_s m =
    let l := mn_split m in
    let has := fun b => Nat.ltb 0 (sl_active (nth b l sl_empty)) in
    do cur <- nth_error l (mn_active_block m);
    match (if Nat.ltb 0 (sl_active cur) then Some (mn_active_block m) else scan_has has (seq 0 (length l))) with
    | None => Some None
    | Some b =>
      do sl <- nth_error l b;
      do na <- (if Nat.ltb 0 (sl_active sl) then sub_s (sl_active sl) 1 else None);
      do cc <- nth_error (sl_list sl) na;
      let '(c, cls) := cc in
      do l' <- upds l b {| sl_active := na; sl_list := sl_list sl |};
      Some (Some ({| mn_main := mn_main m; mn_pred := mn_pred m; mn_split := l'; mn_active_block := b |}, (b, c, cls)))
    end.
  Proof. reflexivity. Qed.

  Lemma pick_s_ok m : minv n alpha delta E m -> ab_ok m ->
    pick_splitter_s m = Some (pick_splitter m) /\
    (forall m' x, pick_splitter m = Some (m', x) -> ab_ok m').
  Proof.
    intros I Hab. rewrite pick_s_unfold, pick_unfold. cbv zeta.
    unfold ab_ok in Hab. rewrite (nth_error_some sl_empty _ _ Hab). cbn [bind].
    set (l := mn_split m) in *. set (has := fun b => Nat.ltb 0 (sl_active (nth b l sl_empty))).
    change (Nat.ltb 0 (sl_active (nth (mn_active_block m) l sl_empty))) with (has (mn_active_block m)).
    assert (Hob : forall b, (if has (mn_active_block m) then Some (mn_active_block m)
                             else scan_has has (seq 0 (length l))) = Some b -> b < length l /\ has b = true).
    { intros b. destruct (has (mn_active_block m)) eqn:Ha.
      - intros H; inversion H; subst. auto.
      - intros H. destruct (scan_has_in has _ b H) as [H1 H2]. apply in_seq in H1. split; [lia|exact H2]. }
    destruct (if has (mn_active_block m) then Some (mn_active_block m) else scan_has has (seq 0 (length l))) as [b|].
    - destruct (Hob b eq_refl) as [Hb Hh]. unfold has in Hh.
      rewrite (nth_error_some sl_empty l b Hb). cbn [bind]. rewrite Hh. apply Nat.ltb_lt in Hh.
      rewrite sub_s_some by lia. cbn [bind].
      pose proof (si_ok _ _ _ _ _ _ _ (mi_sinv _ _ _ _ _ I) b) as Hok. unfold sl_ok, spl in Hok. fold l in Hok.
      rewrite (nth_error_some (0,0) (sl_list (nth b l sl_empty)) (sl_active (nth b l sl_empty) - 1)) by lia. cbn [bind].
      destruct (nth (sl_active (nth b l sl_empty) - 1) (sl_list (nth b l sl_empty)) (0,0)) as [c cls].
      rewrite upds_some by exact Hb. cbn [bind]. split; [reflexivity|].
      intros m' x H. inversion H; subst. unfold ab_ok. cbn [mn_active_block mn_split]. rewrite hp_upd_length. exact Hb.
    - split; [reflexivity|]. intros m' x H. discriminate.
  Qed.

  Lemma refine_s_ok : forall fuel m a C, minv n alpha delta E m -> respects n isf (bidm m) ->
    hinv n alpha delta (bidm m) (actm m) [] a C -> ab_ok m ->
    refine_s false delta_s fuel n m = refine delta fuel n m.
  Proof.
    induction fuel as [|f IH]; intros m a C I HR HI Hab; [reflexivity|].
    cbn [refine_s refine].
    pose proof (bw_nb _ _ (fw_base _ _ (mi_main _ _ _ _ _ I))) as Hnb. unfold nblk in Hnb.
    rewrite sub_s_some by (unfold bp_num_blocks; lia). cbn [bind].
    destruct (Nat.ltb (bp_num_blocks (fp_base (mn_main m)) - 1) n); [|reflexivity].
    destruct (pick_s_ok m I Hab) as [Hps Hab']. rewrite Hps. cbn [bind].
    destruct (pick_splitter m) as [[m' [[b c] cls]]|] eqn:Hp; [|reflexivity].
    destruct (pick_some n alpha delta E m m' b c cls I Hp) as [Hmain [Hent [I' [_ Hacts]]]].
    assert (Hbid : bidm m' = bidm m) by (unfold bidm; rewrite Hmain; reflexivity).
    assert (HR' : respects n isf (bidm m')) by (rewrite Hbid; exact HR).
    assert (Hpick : forall todo, (forall x y, x < n -> y < n -> bidm m' x = bidm m' y ->
                       bidm m' (delta x c) = b -> bidm m' (delta y c) <> b -> In (bidm m' x) todo) ->
                    hinv n alpha delta (bidm m') (actm m') todo c b).
    { intros todo Hcov. rewrite Hbid in *. eapply hinv_pick; [exact HI|exact Hacts|exact Hcov]. }
    destruct (rws_s_ok m' b c cls I' HR' Hent Hpick) as [Hs Hab2]. rewrite Hs. cbn [bind].
    destruct (rws_spec n alpha delta isf E m' b c cls Env I' HR' Hent Hpick) as [I1 [HR1 [HI1 _]]].
    apply (IH _ c b I1 HR1 HI1). apply Hab2. apply (Hab' m' (b, c, cls) eq_refl).
  Qed.

  (* ---------------------------------------------------------------- Minimizer::new *)
  Lemma init_sp_s_ok : fold_opt (fun sp c => add_splitter_s sp 1 c 1 false) (seq 0 alpha) [] = Some (init_sp alpha).
  Proof.
    unfold init_sp. apply (fold_opt_agree (fun _ _ => True)); [|exact Logic.I].
    intros s x r _. split; [apply add_splitter_s_ok|exact Logic.I].
  Qed.

  Lemma init_sp_len : 2 <= length (init_sp alpha).
  Proof.
    destruct (init_sp_spec alpha) as [_ [H2 _]].
    destruct (le_lt_dec 2 (length (init_sp alpha))) as [H|H]; [exact H|exfalso].
    unfold spl in H2. rewrite nth_overflow in H2 by lia. cbn [sl_list sl_empty] in H2.
    destruct alpha as [|a']; [lia|]. rewrite seq_S, map_app in H2. destruct (map _ (seq 0 a')); discriminate.
  Qed.

  Lemma mini_new_s_ok :
    mini_new_s false delta_s isf_s n alpha = Some (mini_new delta isf n alpha) /\ ab_ok (mini_new delta isf n alpha).
  Proof.
    pose proof (e_n _ _ _ _ _ Env) as Hn. pose proof (m_init_minv n alpha delta isf E Env) as I0.
    unfold mini_new_s. rewrite init_sp_s_ok. cbn [bind]. cbv zeta. cbn [mn_main mn_pred mn_split].
    change (bp_num_blocks (fp_base (fp_new n))) with (km (m_init n alpha)). rewrite (m_init_km n alpha Hn). cbn [Nat.eqb negb].
    assert (H1 : 1 <= 1 < nblk (fp_base (fp_new n))).
    { change (nblk (fp_base (fp_new n))) with (km (m_init n alpha)). rewrite (m_init_km n alpha Hn). lia. }
    rewrite (fp_refine_s_ok n (fp_new n) 1 isf_s isf (fp_new_wf n Hn) H1 Hfs). cbn [bind].
    rewrite mini_new_unfold. cbv zeta.
    destruct (fp_refine_spec n (fp_new n) 1 isf (fp_new_wf n Hn) H1) as [W' R].
    destruct (fp_refine (fp_new n) 1 isf) as [main' [i j]]. cbn [fst snd] in *.
    pose proof init_sp_len as Hlen.
    inversion R as [Hall Hk Hbid E1|Hnone Hk Hbid E1|Hk Hbid Hex1 Hex2 E1]; subst i j.
    - cbn [Nat.eqb negb andb]. split; [reflexivity|]. unfold ab_ok, set_main, m_init. cbn [mn_active_block mn_split]. lia.
    - cbn [Nat.eqb negb andb]. split; [reflexivity|]. unfold ab_ok, set_main, m_init. cbn [mn_active_block mn_split]. lia.
    - change (nblk (bp_new n)) with (km (m_init n alpha)) in *.
      change (nblk (fp_base (fp_new n))) with (km (m_init n alpha)) in *. rewrite (m_init_km n alpha Hn) in *.
      cbn [Nat.eqb negb andb]. split.
      + apply (update_splitters_s_ok n alpha delta delta_s (e_cl _ _ _ _ _ Env) Hds
                 {| mn_main := main'; mn_pred := repeat (bp_new n) alpha; mn_split := init_sp alpha; mn_active_block := 0 |}
                 (bidm (m_init n alpha)) 1 2 2); cbn [mn_main mn_pred mn_split]; auto; try lia.
        * pose proof (bid_split_refine (m_init n alpha) 1 isf main' I0) as Hb. rewrite (m_init_km n alpha Hn) in Hb.
          apply Hb. exact Hbid.
        * pose proof (mi_sinv _ _ _ _ _ I0) as HS. rewrite (m_init_km n alpha Hn) in HS. exact HS.
      + unfold ab_ok. pose proof (update_splitters_len (set_main (m_init n alpha) main') 1 2) as HL.
        rewrite update_splitters_unfold in *. cbv zeta in *. cbn [mn_active_block mn_split set_main m_init] in *. lia.
  Qed.

  (* Minimizer::new + refine: the strict reading never fails *)
  Theorem refine_strict :
    (do m0 <- mini_new_s false delta_s isf_s n alpha; refine_s false delta_s (4 * n * alpha + 16) n m0) =
    refine delta (4 * n * alpha + 16) n (mini_new delta isf n alpha).
  Proof.
    destruct mini_new_s_ok as [-> Hab]. cbn [bind].
    destruct (mini_new_spec n alpha delta isf E Env) as [I [HR HI]].
    apply (refine_s_ok _ _ 0 0 I HR HI Hab).
  Qed.
End StrictLoop.

(* ------------------------------------------------------------------ 9. from_partition, remap_nodes, minimize *)
Lemma map_snd_combine_seq {A B} (g : A -> B) : forall (l : list A) s,
  map (fun io : nat * A => g (snd io)) (combine (seq s (length l)) l) = map g l.
Proof. induction l as [|x l IH]; intros s; cbn [length seq combine map snd]; [reflexivity|]. f_equal. apply IH. Qed.

Lemma bind_assoc {A B C} (x : option A) (f : A -> option B) (g : B -> option C) :
  (do a <- x; do b <- f a; g b) = (do b <- (do a <- x; f a); g b).
Proof. destruct x; reflexivity. Qed.

Section StrictQuotient.
  Context (A : automaton) (p : fpart).
  Context (Hwf : aut_wf A) (Wp : fp_wf (num_states A) p).

  Lemma new_id_s_ok :
    map_opt (fun s => do b <- fp_block_id_s p s; sub_s b 1) (seq 0 (num_states A)) = Some (new_id_of p (num_states A)).
  Proof.
    unfold new_id_of. apply map_opt_some. intros s Hs. apply in_seq in Hs.
    rewrite (fp_block_id_s_ok _ p s Wp) by lia. cbn [bind]. apply sub_s_some.
    pose proof (fp_bid_range _ p s Wp). lia.
  Qed.

  Lemma old_id_s_ok :
    map_opt (fun b => if Nat.ltb 0 b then do se <- nth_error (bp_block (fp_base p)) b; nth_error (bp_seg (fp_base p)) (fst se)
                      else None) (seq 1 (bp_num_blocks (fp_base p) - 1)) = Some (old_id_of p).
  Proof.
    unfold old_id_of. apply map_opt_some. intros b Hb. apply in_seq in Hb.
    replace (Nat.ltb 0 b) with true by (symmetry; apply Nat.ltb_lt; lia).
    assert (Hbk : b < length (bp_block (fp_base p))) by (unfold bp_num_blocks in Hb; lia).
    rewrite (nth_error_some (0,0) _ b Hbk). cbn [bind]. unfold rep_of. apply nth_error_some.
    assert (R : 1 <= b < nblk (fp_base p)) by (unfold nblk; lia).
    pose proof (bw_rng _ _ (fw_base _ _ Wp) b R) as Hr. unfold blk in Hr. rewrite (bw_len _ _ (fw_base _ _ Wp)). lia.
  Qed.

  Lemma remap_nodes_s_ok :
    remap_nodes_s A (new_id_of p (num_states A)) (old_id_of p) = Some (quotient_of A p).
  Proof.
    set (n := num_states A). set (nid := new_id_of p n). set (oid := old_id_of p).
    set (k := nblk (fp_base p)).
    assert (Hnl : length nid = n) by (unfold nid, new_id_of; rewrite map_length, seq_length; reflexivity).
    assert (Hol : length oid = k - 1) by (unfold oid, old_id_of; rewrite map_length, seq_length; reflexivity).
    assert (Hsl : length (astates A) = n) by (destruct Hwf as [H _]; exact H).
    unfold remap_nodes_s. fold n. fold nid. fold oid.
    rewrite (nth_error_some 0 nid (initial A)) by (rewrite Hnl; apply aut_wf_initial; exact Hwf). cbn [bind].
    rewrite (map_opt_some _ (fun io => remap_state nid (a_state A (snd io)))).
    - cbn [bind]. unfold quotient_of, remap_nodes. fold n. fold nid. fold oid.
      rewrite (map_snd_combine_seq (fun o => remap_state nid (a_state A o)) oid 0). reflexivity.
    - intros [j o] Hin. cbn [fst snd].
      destruct (in_combine_seq_nth 0 oid 0 j o Hin) as [_ [Hj Ho]]. rewrite Nat.sub_0_r in *. rewrite Hol in Hj.
      pose proof (q_old p j Hj) as Hqo. fold oid in Hqo. rewrite Hqo in Ho. subst o.
      assert (Hb : 1 <= S j < k) by lia. destruct (q_rep A p Wp (S j) Hb) as [Hr1 Hr2].
      rewrite (nth_error_some dstate (astates A) _) by (rewrite Hsl; exact Hr1). cbn [bind].
      fold (a_state A (rep_of p (S j))).
      destruct (aut_wf_state A _ Hwf Hr1) as [S1 [S2 [S3 [S4 S5]]]].
      unfold remap_state_s. rewrite S1.
      rewrite (nth_error_some 0 nid _) by (rewrite Hnl; exact Hr1). cbn [bind].
      pose proof (q_h_rep A p Wp j Hj) as Hh. fold n in Hh. fold nid in Hh. rewrite Hh.
      rewrite (nth_error_some 0 oid j) by (rewrite Hol; exact Hj). cbn [bind].
      rewrite Hqo, Nat.eqb_refl. cbn [negb].
      rewrite (map_opt_some (nth_error nid) (fun x => nth x nid 0)).
      2:{ intros t Ht. apply nth_error_some. rewrite Hnl. apply S4. exact Ht. }
      cbn [bind].
      assert (Hdef : (match a_default (a_state A (rep_of p (S j))) with
                      | Some d => do d' <- nth_error nid d; Some (Some d')
                      | None => Some None end) =
                     Some (option_map (fun x => nth x nid 0) (a_default (a_state A (rep_of p (S j)))))).
      { destruct (a_default (a_state A (rep_of p (S j)))) as [d|]; [|reflexivity].
        rewrite (nth_error_some 0 nid d) by (rewrite Hnl; exact S5). reflexivity. }
      rewrite Hdef. cbn [bind a_id]. rewrite Nat.eqb_refl.
      unfold remap_state. rewrite S1, Hh. reflexivity.
  Qed.
End StrictQuotient.

(* no bounds check, subtraction check, FastSet range check, fuel limit or debug assertion of the minimizer
   fires on a well-formed automaton: the strict reading computes exactly what the model computes *)
Theorem minimize_strict A : aut_wf A -> minimize_s false A = minimize A.
Proof.
  intros Hwf. destruct (compile_facts A Hwf) as [T [HT [Halpha [Hm Hev]]]].
  pose proof (wf_bridge A Hwf) as Hwf'.
  destruct (AutomatonProofs.compile_successors_strict A LinkProofs.merge_spec_holds Hwf') as [Hcs Hevs].
  pose proof (env_of A T Hwf HT Hev) as Env.
  unfold minimize_s. rewrite Hcs, HT. cbv zeta. rewrite (minimize_unfold A T HT), Halpha.
  set (n := num_states A) in *. set (alpha := length (pick_alphabet A)) in *.
  set (isf_s := fun i => option_map a_final (nth_error (astates A) i)).
  assert (Hds : forall x c, x < n -> c < alpha -> AutomatonProofs.ct_eval_s T x c = Some (ct_eval T x c)).
  { intros x c Hx Hc. apply (Hevs T HT x c Hx Hc). }
  assert (Hfs : forall x, x < n -> isf_s x = Some (isf_of A x)).
  { intros x Hx. unfold isf_s, isf_of, a_state. destruct Hwf as [Hl _].
    rewrite (nth_error_some dstate (astates A) x) by (rewrite Hl; exact Hx). reflexivity. }
  rewrite bind_assoc.
  rewrite (refine_strict n alpha (ct_eval T) (isf_of A) (Eq_lang A) (AutomatonProofs.ct_eval_s T) isf_s Env Hds Hfs Hm).
  destruct (refine_correct _ _ _ _ _ Env) as [m [Href [Wp _]]]. rewrite Href. cbn [bind].
  pose proof (bw_nb _ _ (fw_base _ _ Wp)) as Hnb. unfold nblk in Hnb.
  rewrite sub_s_some by (unfold bp_num_blocks; lia). cbn [bind].
  destruct (Nat.ltb (bp_num_blocks (fp_base (mn_main m)) - 1) n); [|reflexivity].
  pose proof (new_id_s_ok A (mn_main m) Wp) as E1. fold n in E1. rewrite E1. cbn [bind].
  pose proof (old_id_s_ok A (mn_main m) Wp) as E2. rewrite E2. cbn [bind].
  apply (remap_nodes_s_ok A (mn_main m) Hwf Wp).
Qed.

Corollary minimize_strict_total A : aut_wf A ->
  exists B, minimize_s false A = Some B /\ aut_wf B /\ dfa_equiv A B = Some true /\ collapsed B = Some true /\
            nerode_index A = Some (num_states B).
Proof. intros Hwf. rewrite (minimize_strict A Hwf). apply minimize_correct. exact Hwf. Qed.
