(* TerminationRun.v -- the potential of the term built by a construction program is bounded by
   [pphi p] (Termination.v), a number computed from the program alone (string lengths, loop bounds). *)
Require Import Base CharSet Partition PartitionSpec LoopRange Regex Inclusion Constructors Deriv Denote Sem.
Require Import Lang LoopRangeProofs ManagerProofs ConstructorProofs RunProofs.
Require Import Termination TerminationPot.
Open Scope N_scope.

Lemma vl_m_full m : wf m -> vl (m_full m) = 1.
Proof. intros W. rewrite (c_full m (wf_consts m W)), (c_sigma m (wf_consts m W)). reflexivity. Qed.
Lemma phi_m_sigma m : wf m -> phi (m_sigma m) = CW + 1 /\ vl (m_sigma m) = 1.
Proof. intros W. rewrite (c_sigma m (wf_consts m W)). split; reflexivity. Qed.

Lemma lpa_mono2 p p' v v' r : p <= p' -> v <= v' -> lpa p v r <= lpa p' v' r.
Proof.
  intros Hp Hv. destruct r as [i [j|]]; cbn [lpa].
  - assert ((j - 1) * v <= (j - 1) * v') by (apply N.mul_le_mono_l; exact Hv). lia.
  - assert ((i - 1) * v <= (i - 1) * v') by (apply N.mul_le_mono_l; exact Hv). lia.
Qed.
Lemma lvl_mono v v' r : v <= v' -> lvl v r <= lvl v' r.
Proof.
  intros Hv. destruct r as [i [j|]]; cbn [lvl].
  - assert (j * v <= j * v') by (apply N.mul_le_mono_l; exact Hv). lia.
  - assert (i * v <= i * v') by (apply N.mul_le_mono_l; exact Hv). lia.
Qed.

Lemma range_pot m a b m' t : wf m -> range m a b = Some (m', t) -> pa t = 1 /\ vl t = 1.
Proof.
  intros W H. unfold range in H. destruct ((a <=? b) && (b <=? MAXC)); [|discriminate].
  unfold char_set in H. apply make_rnode in H; [|exact W|exact I|intros c []].
  rewrite pa_node, vl_node, H. split; reflexivity.
Qed.

Lemma str_go_pot : forall rw m acc m' t, wf m -> owned m acc -> str_go m rw acc = Some (m', t) ->
  vl t <= vl acc + N.of_nat (length rw) /\ pa t <= N.max (pa acc) (CW + 1 + vl acc + N.of_nat (length rw)).
Proof.
  induction rw as [|c rw IH]; intros m acc m' t W Oa H; cbn [str_go] in H.
  - inversion H; subst. cbn [length]. lia.
  - destruct (mchar m c) as [[m1 ch]|] eqn:C1; cbn [bind] in H; [|discriminate].
    destruct (mchar_ok m c m1 ch W C1) as (_ & W1 & X1 & Och & _).
    destruct (range_pot m c c m1 ch W C1) as [Pc Vc].
    destruct (concat ch m1 acc) as [[m2 r]|] eqn:C2; cbn [bind] in H; [|discriminate].
    destruct (concat_ok ch m1 acc m2 r W1 Och (ext_owned m m1 acc X1 Oa) C2) as (W2 & X2 & Or & _).
    destruct (concat_pot ch m1 acc m2 r W1 Och (ext_owned m m1 acc X1 Oa) C2) as [P2 V2].
    destruct (IH m2 r m' t W2 Or H) as [V3 P3]. pose proof (phi_le ch). cbn [length].
    rewrite Nat2N.inj_succ. unfold CW in *. lia.
Qed.

Theorem run_pot : forall p m m' t, wf m -> prog_ok p = true -> run p m = Some (m', t) ->
  phi t <= pphi p /\ vl t <= pvl p.
Proof.
  induction p as [| | | |a b|w|p IHp q IHq|p IHp q IHq|p IHp q IHq|p IHp|p IHp q IHq|p IHp lo hi|p IHp c];
    intros m m' t W Hok H; cbn [run prog_ok pphi pvl] in *.
  - inversion H; subst. rewrite (phi_m_empty m' W), (vl_m_empty m' W). unfold CW. lia.
  - inversion H; subst. rewrite (phi_m_eps m' W), (vl_m_eps m' W). unfold CW. lia.
  - inversion H; subst. rewrite (phi_m_full m' W), (vl_m_full m' W). unfold CW. lia.
  - inversion H; subst. destruct (phi_m_sigma m' W) as [E1 E2]. rewrite E1, E2. unfold CW. lia.
  - destruct (range_pot m a b m' t W H) as [P V]. pose proof (phi_le t). unfold CW in *. lia.
  - unfold mstr in H. destruct (str_go_pot (rev w) m (m_eps m) m' t W (c_eps_o m (wf_consts m W)) H) as [V P].
    rewrite rev_length, (vl_m_eps m W), (pa_m_eps m W) in *. pose proof (phi_le t). unfold CW in *. lia.
  - apply andb_true_iff in Hok as [Hp Hq].
    destruct (run p m) as [[m1 x]|] eqn:R1; cbn [bind] in H; [|discriminate].
    destruct (run q m1) as [[m2 y]|] eqn:R2; cbn [bind] in H; [|discriminate].
    destruct (run_wf p m m1 x W Hp R1) as (W1 & X1 & Ox). destruct (run_wf q m1 m2 y W1 Hq R2) as (W2 & X2 & Oy).
    destruct (IHp m m1 x W Hp R1) as [Px Vx]. destruct (IHq m1 m2 y W1 Hq R2) as [Py Vy].
    destruct (concat_pot x m2 y m' t W2 (ext_owned m1 m2 x X2 Ox) Oy H) as [P V].
    pose proof (phi_le t). pose proof (phi_ge_pa y). unfold CW in *. lia.
  - apply andb_true_iff in Hok as [Hp Hq].
    destruct (run p m) as [[m1 x]|] eqn:R1; cbn [bind] in H; [|discriminate].
    destruct (run q m1) as [[m2 y]|] eqn:R2; cbn [bind] in H; [|discriminate].
    destruct (run_wf p m m1 x W Hp R1) as (W1 & X1 & Ox). destruct (run_wf q m1 m2 y W1 Hq R2) as (W2 & X2 & Oy).
    destruct (IHp m m1 x W Hp R1) as [Px Vx]. destruct (IHq m1 m2 y W1 Hq R2) as [Py Vy].
    pose proof (union_pot m2 x y m' t W2 (ext_owned m1 m2 x X2 Ox) Oy H) as P.
    pose proof (vl_le_pa t). pose proof (phi_ge_pa t). lia.
  - apply andb_true_iff in Hok as [Hp Hq].
    destruct (run p m) as [[m1 x]|] eqn:R1; cbn [bind] in H; [|discriminate].
    destruct (run q m1) as [[m2 y]|] eqn:R2; cbn [bind] in H; [|discriminate].
    destruct (run_wf p m m1 x W Hp R1) as (W1 & X1 & Ox). destruct (run_wf q m1 m2 y W1 Hq R2) as (W2 & X2 & Oy).
    destruct (IHp m m1 x W Hp R1) as [Px Vx]. destruct (IHq m1 m2 y W1 Hq R2) as [Py Vy].
    assert (P : phi t <= CW + CW + N.max (phi x) (phi y)).
    { unfold inter in H. apply (inter_list_pot m2 [x; y] m' t _ W2); auto.
      - intros z [<-|[<-|[]]]; auto. eapply ext_owned; eauto.
      - pose proof (phi_ge2 x). lia.
      - intros z [<-|[<-|[]]]; lia. }
    pose proof (vl_le_pa t). pose proof (phi_ge_pa t). unfold CW in *. lia.
  - destruct (run p m) as [[m1 x]|] eqn:R1; cbn [bind] in H; [|discriminate].
    destruct (run_wf p m m1 x W Hok R1) as (W1 & X1 & Ox). destruct (IHp m m1 x W Hok R1) as [Px Vx].
    destruct (complement m1 x) as [r|] eqn:E; cbn [bind] in H; [|discriminate]. inversion H; subst m' t.
    pose proof (complement_pot m1 x r W1 Ox E) as P. pose proof (vl_le_pa r). pose proof (phi_ge_pa r). unfold CW in *. lia.
  - apply andb_true_iff in Hok as [Hp Hq].
    destruct (run p m) as [[m1 x]|] eqn:R1; cbn [bind] in H; [|discriminate].
    destruct (run q m1) as [[m2 y]|] eqn:R2; cbn [bind] in H; [|discriminate].
    destruct (run_wf p m m1 x W Hp R1) as (W1 & X1 & Ox). destruct (run_wf q m1 m2 y W1 Hq R2) as (W2 & X2 & Oy).
    destruct (IHp m m1 x W Hp R1) as [Px Vx]. destruct (IHq m1 m2 y W1 Hq R2) as [Py Vy].
    unfold diff in H. destruct (complement m2 y) as [ny|] eqn:E; cbn [bind] in H; [|discriminate].
    pose proof (complement_pot m2 y ny W2 Oy E) as Pn.
    destruct (complement_ok m2 y W2 Oy) as (r' & E' & Or' & _). rewrite E in E'. inversion E'; subst r'.
    assert (P : phi t <= CW + CW + N.max (phi x) (phi ny)).
    { unfold inter in H. apply (inter_list_pot m2 [x; ny] m' t _ W2); auto.
      - intros z [<-|[<-|[]]]; auto. eapply ext_owned; eauto.
      - pose proof (phi_ge2 x). lia.
      - intros z [<-|[<-|[]]]; lia. }
    pose proof (vl_le_pa t). pose proof (phi_ge_pa t). unfold CW in *. lia.
  - destruct hi as [hi|]; apply andb_true_iff in Hok as [Hp Hh]; apply N.leb_le in Hh.
    + destruct (run p m) as [[m1 x]|] eqn:R1; cbn [bind] in H; [|discriminate].
      destruct (run_wf p m m1 x W Hp R1) as (W1 & X1 & Ox). destruct (IHp m m1 x W Hp R1) as [Px Vx].
      pose proof (phi_ge2 x) as H2x. unfold smt_loop in H. destruct (lo <=? hi) eqn:L.
      * apply N.leb_le in L.
        destruct (mk_loop_pot m1 x (lr_finite lo hi) m' t W1 Ox) as [P V]; [cbn; lia | exact H|].
        unfold loop_pa, loop_vl, lr_finite in *.
        pose proof (lpa_mono2 (phi x) (pphi p) (vl x) (pvl p) (LR lo (Some hi)) Px Vx).
        pose proof (lvl_mono (vl x) (pvl p) (LR lo (Some hi)) Vx).
        cbn [lpa lvl] in *. pose proof (phi_le t). unfold CW in *. lia.
      * inversion H; subst. rewrite (phi_m_empty m' W1), (vl_m_empty m' W1). unfold CW.
        remember ((hi - 1) * pvl p) as z. lia.
    + destruct (run p m) as [[m1 x]|] eqn:R1; cbn [bind] in H; [|discriminate].
      destruct (run_wf p m m1 x W Hp R1) as (W1 & X1 & Ox). destruct (IHp m m1 x W Hp R1) as [Px Vx].
      unfold Constructors.loop_inf in H.
      destruct (mk_loop_pot m1 x (lr_infinite lo) m' t W1 Ox) as [P V]; [cbn; lia | exact H|].
      unfold loop_pa, loop_vl, lr_infinite in *.
      pose proof (lpa_mono2 (phi x) (pphi p) (vl x) (pvl p) (LR lo None) Px Vx).
      pose proof (lvl_mono (vl x) (pvl p) (LR lo None) Vx).
      cbn [lpa lvl] in *. pose proof (phi_le t). unfold CW in *. lia.
  - discriminate.
Qed.
