(* Partition.v -- executable model of character_sets.rs :: CharPartition, ClassId, CoverResult,
   merge_partitions, merge_partition_list (no proofs here).
   Mirrors the code after repair D2 (interval_cover compares with start(i+1)). *)
Require Import Base CharSet.
Open Scope N_scope.

Inductive classid := CInt (i : nat) | CComp.
Definition classid_eqb (a b : classid) : bool :=
  match a, b with CInt i, CInt j => Nat.eqb i j | CComp, CComp => true | _, _ => false end.

Inductive cover := CoveredBy (i : nat) | DisjointFromAll | Overlaps.

Record part := { ivs : list cs; wit : N }.

Definition pnew : part := {| ivs := []; wit := 0 |}.
Definition plen (p : part) : nat := length (ivs p).
Definition pfrom_set (c : cs) : part :=
  {| ivs := [c]; wit := if 0 <? fst c then 0 else snd c + 1 |}.
(* push: preconditions (start <= end <= MAX, start > last end) are debug assertions only *)
Definition ppush (p : part) (a b : N) : part :=
  {| ivs := ivs p ++ [(a, b)]; wit := if a <=? wit p then b + 1 else wit p |}.

(* v.sort_by_key(|c| c.start): stable insertion sort *)
Fixpoint insert_by_start (x : cs) (l : list cs) : list cs :=
  match l with
  | [] => [x]
  | y :: t => if fst x <=? fst y then x :: l else y :: insert_by_start x t
  end.
Definition sort_by_start (l : list cs) : list cs := fold_right insert_by_start [] l.
(* note: fold_right inserts the last element first, so equal keys keep their input order *)

Fixpoint scan_sorted (prev : cs) (w : N) (l : list cs) : option N :=
  match l with
  | [] => Some w
  | c :: t => if fst c <=? snd prev then None
              else scan_sorted c (if fst c <=? w then snd c + 1 else w) t
  end.
(* None = Err(NonDisjointCharSets) *)
Definition ptry_from_list (l : list cs) : option part :=
  match sort_by_start l with
  | [] => Some {| ivs := []; wit := 0 |}
  | c0 :: t =>
    let w0 := if fst c0 <=? 0 then snd c0 + 1 else 0 in
    match scan_sorted c0 w0 t with
    | Some w => Some {| ivs := c0 :: t; wit := w |}
    | None => None
    end
  end.

Definition SENT : N := MAXC + 1.
Definition pget (p : part) (i : nat) : N * N := nth i (ivs p) (SENT, SENT).
Definition pstart (p : part) (i : nat) : N := fst (pget p i).
Definition pend (p : part) (i : nat) : N := snd (pget p i).
Definition pinterval (p : part) (i : nat) : option cs := nth_error (ivs p) i.   (* None = panic *)
Definition ppick_iv (p : part) (i : nat) : option N := option_map fst (nth_error (ivs p) i).
Definition pempty_complement (p : part) : bool := MAXC <? wit p.
Definition ppick_complement (p : part) : N := wit p.
Definition pvalid (p : part) (c : classid) : bool :=
  match c with CInt i => Nat.ltb i (plen p) | CComp => negb (pempty_complement p) end.
Definition pnum_classes (p : part) : nat := if pempty_complement p then plen p else S (plen p).
(* pick_in_class: None = panic *)
Definition ppick (p : part) (c : classid) : option N :=
  match c with
  | CInt i => ppick_iv p i
  | CComp => if pempty_complement p then None else Some (wit p)
  end.
Definition pclass_ids (p : part) : list classid :=
  map CInt (seq 0 (plen p)) ++ (if pempty_complement p then [] else [CComp]).
Definition ppicks (p : part) : list N :=
  map fst (ivs p) ++ (if pempty_complement p then [] else [wit p]).

(* class_of_char: the binary search of the source; fuel = number of iterations allowed;
   None = index out of bounds (never happens) or out of fuel (never happens with fuel len+1) *)
Fixpoint bs_char (fuel : nat) (l : list cs) (x : N) (i j : nat) : option classid :=
  match fuel with
  | O => None
  | S f =>
    if Nat.ltb i j then
      let h := (i + (j - i) / 2)%nat in
      do s <- nth_error l h;
      if cs_contains s x then Some (CInt h)
      else if cs_is_before s x then bs_char f l x (S h) j else bs_char f l x i h
    else Some CComp
  end.
Definition pclass_of_char (p : part) (x : N) : option classid :=
  bs_char (S (plen p)) (ivs p) x 0 (plen p).

Fixpoint bs_cover (fuel : nat) (l : list cs) (x : N) (i j : nat) : option nat :=
  match fuel with
  | O => None
  | S f =>
    if Nat.ltb (S i) j then
      let h := (i + (j - i) / 2)%nat in
      do s <- nth_error l h;
      if fst s <=? x then bs_cover f l x h j else bs_cover f l x i h
    else Some i
  end.
Definition pinterval_cover (p : part) (s : cs) : option cover :=
  let a := fst s in let b := snd s in
  do i <- bs_cover (S (plen p)) (ivs p) a 0 (plen p);
  let '(ai, bi) := pget p i in
  Some (if a <? ai then (if b <? ai then DisjointFromAll else Overlaps)
        else if a <=? bi then (if b <=? bi then CoveredBy i else Overlaps)
        else (if b <? pstart p (S i) then DisjointFromAll else Overlaps)).   (* D2 repaired *)
(* the pinned code before repair D2 compared with end(i+1) *)
Definition pinterval_cover_prefix (p : part) (s : cs) : option cover :=
  let a := fst s in let b := snd s in
  do i <- bs_cover (S (plen p)) (ivs p) a 0 (plen p);
  let '(ai, bi) := pget p i in
  Some (if a <? ai then (if b <? ai then DisjointFromAll else Overlaps)
        else if a <=? bi then (if b <=? bi then CoveredBy i else Overlaps)
        else (if b <? pend p (S i) then DisjointFromAll else Overlaps)).
(* class_of_set: Some None = Err(AmbiguousCharSet) *)
Definition pclass_of_set (p : part) (s : cs) : option (option classid) :=
  do c <- pinterval_cover p s;
  Some (match c with CoveredBy i => Some (CInt i) | DisjointFromAll => Some CComp | Overlaps => None end).
Definition pgood_char_set (p : part) (s : cs) : option bool :=
  do c <- pinterval_cover p s;
  Some (match c with Overlaps => false | _ => true end).

(* merge_partitions: the two-pointer sweep; i, j are the indices of the *next* intervals.
   Subtractions a-1, c-1 are guarded (a > c >= 0, resp. c > a >= 0) so they never underflow;
   they are modelled by the truncated N subtraction and the guard is part of merge_ok below. *)
Fixpoint merge_loop (fuel : nat) (p1 p2 : part) (i : nat) (a b : N) (j : nat) (c d : N) (res : part)
  : option part :=
  match fuel with
  | O => None
  | S f =>
    if negb ((b <=? MAXC) || (d <=? MAXC)) then Some res else
    if b <? c then let '(x, y) := pget p1 i in merge_loop f p1 p2 (S i) x y j c d (ppush res a b)
    else if d <? a then let '(x, y) := pget p2 j in merge_loop f p1 p2 i a b (S j) x y (ppush res c d)
    else if c <? a then merge_loop f p1 p2 i a b j a d (ppush res c (a - 1))
    else if a <? c then merge_loop f p1 p2 i c b j c d (ppush res a (c - 1))
    else if b <? d then let '(x, y) := pget p1 i in merge_loop f p1 p2 (S i) x y j (b + 1) d (ppush res a b)
    else if d <? b then let '(x, y) := pget p2 j in merge_loop f p1 p2 i (d + 1) b (S j) x y (ppush res c d)
    else let '(x, y) := pget p1 i in let '(x', y') := pget p2 j in
         merge_loop f p1 p2 (S i) x y (S j) x' y' (ppush res a b)
  end.
Definition merge_fuel (p1 p2 : part) : nat := (2 * (plen p1 + plen p2) + 2)%nat.
Definition pmerge_opt (p1 p2 : part) : option part :=
  let '(a, b) := pget p1 0 in let '(c, d) := pget p2 0 in
  merge_loop (merge_fuel p1 p2) p1 p2 1 a b 1 c d pnew.
(* total version used by the regex model (fuel is sufficient: Merge proofs) *)
Definition pmerge (p1 p2 : part) : part :=
  match pmerge_opt p1 p2 with Some r => r | None => pnew end.
Definition pmerge_list (l : list part) : part := fold_left pmerge l pnew.

Definition cs_list_eqb (l1 l2 : list cs) : bool :=
  (Nat.eqb (length l1) (length l2)) && forallb (fun p => cs_eqb (fst p) (snd p)) (combine l1 l2).
Definition part_eqb (p q : part) : bool := cs_list_eqb (ivs p) (ivs q) && (wit p =? wit q).
