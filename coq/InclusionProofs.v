(* InclusionProofs.v -- soundness of the syntactic inclusion test (Inclusion.v) and of the
   subsumption pruning of unions (Constructors.v: is_subsumed / remove_subsumed_go).

   Main results
     concat_inclusion_sound : concat_inclusion u v = true -> lang_incl (CL u) (CL v)
     sub_language_sound     : for every fuel, sub_language fuel r s = true -> L r included in L s
     included_in_sound
     remove_subsumed_lang   : pruning keeps the union language

   Identity of terms.  [re_eqb] (Rust ==) compares ids only, so the first case of sub_language
   ("r == s => true") is sound only where equal ids mean equal terms.  This holds for the terms
   owned by one well-formed manager, not for arbitrary id-tagged trees.  The theorems therefore
   take a universe [P : re -> Prop] with
     closed P  : P is closed under children (sub_language recurses into children), and
     id_inj P  : a, b in P with rid a = rid b are equal,
   and require P r, P s.  Intended instance: P := owned m for a well-formed manager m.
   Nothing else about ids is used; concat_inclusion_sound needs no premise at all. *)
Require Import Base CharSet CharSetProofs Partition LoopRange Regex Denote Sem Inclusion Constructors SemProofs.
Open Scope nat_scope.

(* ================= lists, slices ================= *)
Lemma ip_skipn_skipn {A} (l : list A) : forall b a, skipn a (skipn b l) = skipn (b + a) l.
Proof.
  intros b. revert l. induction b as [|b IH]; intros l a.
  - reflexivity.
  - destruct l as [|x t]. simpl. apply skipn_nil. simpl. apply IH.
Qed.
Lemma slice_skipn {A} (l : list A) a b : a <= b -> skipn a l = slice l a b ++ skipn b l.
Proof.
  intros H. unfold slice. replace b with (a + (b - a)) at 2 by lia.
  rewrite <- ip_skipn_skipn. symmetry. apply firstn_skipn.
Qed.
Lemma slice_all {A} (l : list A) a b : length l <= b -> slice l a b = skipn a l.
Proof. intros H. unfold slice. apply firstn_all2. rewrite skipn_length. lia. Qed.
Lemma slice_0 {A} (l : list A) n : slice l 0 n = firstn n l.
Proof. unfold slice. rewrite Nat.sub_0_r. reflexivity. Qed.
Lemma slice_length {A} (l : list A) a b : b <= length l -> length (slice l a b) = b - a.
Proof. intros H. unfold slice. rewrite firstn_length, skipn_length. lia. Qed.
Lemma slice_skipn_shift {A} (l : list A) d s e :
  d <= s -> slice (skipn d l) (s - d) (e - d) = slice l s e.
Proof.
  intros H. unfold slice. rewrite ip_skipn_skipn.
  replace (d + (s - d)) with s by lia. replace (e - d - (s - d)) with (e - s) by lia. reflexivity.
Qed.
Lemma slice_firstn {A} (l : list A) n s e : e <= n -> slice (firstn n l) s e = slice l s e.
Proof.
  intros H. unfold slice. rewrite skipn_firstn_comm, firstn_firstn.
  replace (Nat.min (e - s) (n - s)) with (e - s) by lia. reflexivity.
Qed.
Lemma slice_mid {A} (pre cur rest : list A) :
  slice (pre ++ cur ++ rest) (length pre) (length pre + length cur) = cur.
Proof.
  unfold slice. replace (length pre + length cur - length pre) with (length cur) by lia.
  rewrite skipn_app, skipn_all, Nat.sub_diag. simpl.
  rewrite firstn_app, firstn_all, Nat.sub_diag. simpl. apply app_nil_r.
Qed.
Lemma slice_prefix {A} (l : list A) j n us1 us2 :
  skipn j l = us1 ++ us2 -> length us1 = n -> slice l j (j + n) = us1.
Proof.
  intros H Hn. unfold slice. replace (j + n - j) with n by lia.
  rewrite H, firstn_app, Hn, Nat.sub_diag. simpl. rewrite <- Hn, firstn_all. apply app_nil_r.
Qed.

Lemma CL_incl_app a a' b b' :
  lang_incl (CL a) (CL a') -> lang_incl (CL b) (CL b') -> lang_incl (CL (a ++ b)) (CL (a' ++ b')).
Proof.
  intros Ha Hb w Hw H. apply CL_app in H. destruct H as (w1 & w2 & -> & H1 & H2).
  apply goodw_app in Hw. destruct Hw as [Hw1 Hw2].
  apply CL_app. exists w1, w2. repeat split; auto.
Qed.
Lemma all_incl (A B : lang) : (forall w, A w -> B w) -> lang_incl A B.
Proof. intros H w _. apply H. Qed.

(* ================= rigid patterns ================= *)
Definition all_ranges (l : list re) : Prop := Forall (fun x => is_range x = true) l.

Lemma is_range_inv x : is_range x = true -> exists s, rnode x = NRange s.
Proof. unfold is_range. destruct (rnode x); try discriminate. eauto. Qed.
Lemma match_char_set_inv y s : match_char_set y s = true ->
  exists t, rnode y = NRange t /\ cs_covers s t = true.
Proof. unfold match_char_set. destruct (rnode y); try discriminate. eauto. Qed.
Lemma csp_cons x s seg : rnode x = NRange s ->
  char_sets_of_pattern (x :: seg) = s :: char_sets_of_pattern seg.
Proof. intros H. unfold char_sets_of_pattern. simpl. rewrite H. reflexivity. Qed.
Lemma csp_length seg : all_ranges seg -> length (char_sets_of_pattern seg) = length seg.
Proof.
  induction 1 as [|x seg Hx _ IH]. reflexivity.
  destruct (is_range_inv x Hx) as [s Hs]. rewrite (csp_cons x s seg Hs). simpl. congruence.
Qed.

(* a pointwise Range-inside-Range match: the matched factors of us denote a sub-language *)
Lemma rigid_match_sound seg : all_ranges seg -> forall us,
  rigid_match_at (char_sets_of_pattern seg) us = true ->
  exists us1 us2, us = us1 ++ us2 /\ length us1 = length seg /\ forall w, CL us1 w -> CL seg w.
Proof.
  induction 1 as [|x seg Hx _ IH]; intros us H.
  - exists [], us. repeat split; auto.
  - destruct (is_range_inv x Hx) as [s Hs]. rewrite (csp_cons x s seg Hs) in H.
    destruct us as [|y st]; simpl in H. discriminate.
    apply andb_true_iff in H. destruct H as [Hy Hst].
    destruct (match_char_set_inv y s Hy) as (t & Ht & Hcov).
    destruct (IH st Hst) as (us1 & us2 & -> & Hlen & Hincl).
    exists (y :: us1), us2. repeat split. simpl; congruence.
    intros w Hw. apply CL_cons in Hw. apply CL_cons.
    revert Hw. apply sp_concat_mono; auto.
    intros z Hz. apply (L_range y t z Ht) in Hz. destruct Hz as (c & -> & Hc).
    apply (L_range x s [c] Hs). exists c. split; auto. apply (covers_mem s t c Hcov Hc).
Qed.

Lemma rigid_at_ok u seg j : all_ranges seg ->
  rigid_at (char_sets_of_pattern seg) u j = true ->
  forall w, CL (slice u j (j + length (char_sets_of_pattern seg))) w -> CL seg w.
Proof.
  intros Hall H. unfold rigid_at in H.
  destruct (rigid_match_sound seg Hall _ H) as (us1 & us2 & E & Hlen & Hincl).
  rewrite (csp_length seg Hall). rewrite (slice_prefix u j (length seg) us1 us2 E Hlen). exact Hincl.
Qed.

(* ================= searching ================= *)
Lemma first_some_in {A} (f : nat -> option A) l r :
  first_some f l = Some r -> exists x, In x l /\ f x = Some r.
Proof.
  induction l as [|x t IH]; simpl. discriminate.
  destruct (f x) eqn:E.
  - intros H. exists x. split; auto. congruence.
  - intros H. destruct (IH H) as (y & Hy & Hf). exists y. auto.
Qed.
Lemma next_rigid_match_spec pat s i j k : next_rigid_match pat s i = Some (j, k) ->
  i <= j /\ k = j + length pat /\ k <= length s /\ rigid_at pat s j = true.
Proof.
  unfold next_rigid_match. destruct (Nat.leb (length pat) (length s)) eqn:E; [|discriminate].
  apply Nat.leb_le in E. intros H. apply first_some_in in H. destruct H as (x & Hx & Hf).
  apply in_seq in Hx. destruct (rigid_at pat s x) eqn:Hr; [|discriminate].
  inversion Hf; subst. repeat split; auto; lia.
Qed.
Lemma prev_rigid_match_spec pat s i j k : prev_rigid_match pat s i = Some (j, k) ->
  k <= i /\ k = j + length pat /\ rigid_at pat s j = true.
Proof.
  unfold prev_rigid_match. intros H. apply first_some_in in H. destruct H as (x & Hx & Hf).
  apply in_rev in Hx. apply in_seq in Hx. destruct (rigid_at pat s (x - length pat)) eqn:Hr; [|discriminate].
  inversion Hf; subst. repeat split; auto; lia.
Qed.

(* ================= matched pattern lists ================= *)
(* the slice of u matched by p denotes a sub-language of the slice of v described by p *)
Definition rigid_ok (u v : list re) (p : bpat) : Prop :=
  forall w, CL (slice u (b_sm p) (b_em p)) w -> CL (slice v (b_start p) (b_end p)) w.
(* rigid patterns describe slices of Range factors *)
Definition rigid_wf (v : list re) (l : list bpat) : Prop :=
  Forall (fun p => b_rigid p = true -> all_ranges (slice v (b_start p) (b_end p))) l.
(* what the matcher never changes *)
Definition b_key (p : bpat) := (b_start p, b_end p, b_rigid p).

(* the rigid patterns of l are matched at increasing, non-overlapping positions within [lo,hi] *)
Fixpoint ordered (u v : list re) (lo hi : nat) (l : list bpat) : Prop :=
  match l with
  | [] => lo <= hi
  | p :: t => if b_rigid p
              then lo <= b_sm p /\ b_sm p <= b_em p /\ rigid_ok u v p /\ ordered u v (b_em p) hi t
              else ordered u v lo hi t
  end.
(* same, for a list in reverse order *)
Fixpoint rordered (u v : list re) (lo hi : nat) (l : list bpat) : Prop :=
  match l with
  | [] => lo <= hi
  | p :: t => if b_rigid p
              then b_em p <= hi /\ b_sm p <= b_em p /\ rigid_ok u v p /\ rordered u v lo (b_sm p) t
              else rordered u v lo hi t
  end.

Lemma ordered_weaken u v lo lo' hi l : lo' <= lo -> ordered u v lo hi l -> ordered u v lo' hi l.
Proof.
  revert lo lo'. induction l as [|p t IH]; intros lo lo' Hle; simpl.
  - lia.
  - destruct (b_rigid p). intros (H1 & H2 & H3 & H4). repeat split; auto; lia. apply IH. exact Hle.
Qed.
Lemma ordered_app u v l1 : forall lo mid hi l2,
  ordered u v lo mid l1 -> ordered u v mid hi l2 -> ordered u v lo hi (l1 ++ l2).
Proof.
  induction l1 as [|p t IH]; intros lo mid hi l2 H1 H2; simpl in *.
  - apply (ordered_weaken u v mid lo); auto.
  - destruct (b_rigid p).
    + destruct H1 as (Ha & Hb & Hc & Hd). repeat split; auto. apply (IH _ mid); auto.
    + apply (IH _ mid); auto.
Qed.
Lemma rordered_rev u v r : forall lo hi, rordered u v lo hi r -> ordered u v lo hi (rev r).
Proof.
  induction r as [|p t IH]; intros lo hi H; simpl in *.
  - exact H.
  - destruct (b_rigid p) eqn:Hr.
    + destruct H as (Ha & Hb & Hc & Hd). apply (ordered_app u v (rev t) lo (b_sm p)).
      apply IH. exact Hd. simpl. rewrite Hr. repeat split; auto.
    + apply (ordered_app u v (rev t) lo hi). apply IH. exact H. simpl. rewrite Hr. lia.
Qed.

Lemma set_match_ok u v p j k : b_rigid p = true -> all_ranges (slice v (b_start p) (b_end p)) ->
  rigid_at (pat_sets v p) u j = true -> k = j + length (pat_sets v p) ->
  rigid_ok u v (b_set_match p j k).
Proof.
  intros Hr Hall Hm ->. unfold rigid_ok. simpl. apply (rigid_at_ok u _ j Hall Hm).
Qed.

Lemma frm_spec u v : forall l i ok l', rigid_wf v l ->
  find_rigid_matches u v l i = (ok, l') ->
  map b_key l' = map b_key l /\ (ok = true -> i <= length u -> ordered u v i (length u) l').
Proof.
  induction l as [|p t IH]; intros i ok l' Hwf H; simpl in H.
  - inversion H; subst. split; auto.
  - inversion Hwf as [|? ? Hp Ht]; subst.
    destruct (b_rigid p) eqn:Hr.
    + destruct (next_rigid_match (pat_sets v p) u i) as [[j k]|] eqn:Hn.
      * destruct (find_rigid_matches u v t k) as [ok' t'] eqn:Hf. inversion H; subst.
        destruct (IH k ok t' Ht Hf) as [Hk Ho].
        apply next_rigid_match_spec in Hn. destruct Hn as (H1 & H2 & H3 & H4).
        split. simpl. rewrite Hk. reflexivity.
        intros Hok Hi. simpl. rewrite Hr. repeat split; auto. lia.
        apply set_match_ok; auto.
      * inversion H; subst. split; auto. discriminate.
    + destruct (find_rigid_matches u v t i) as [ok' t'] eqn:Hf. inversion H; subst.
      destruct (IH i ok t' Ht Hf) as [Hk Ho].
      split. simpl. rewrite Hk. reflexivity.
      intros Hok Hi. simpl. rewrite Hr. auto.
Qed.

Lemma frm_rev_go_spec u v : forall r i ok r', rigid_wf v r ->
  find_rigid_matches_rev_go u v r i = (ok, r') ->
  map b_key r' = map b_key r /\ (ok = true -> rordered u v 0 i r').
Proof.
  induction r as [|p t IH]; intros i ok r' Hwf H; simpl in H.
  - inversion H; subst. split; auto. intros _. simpl. lia.
  - inversion Hwf as [|? ? Hp Ht]; subst.
    destruct (b_rigid p) eqn:Hr.
    + destruct (prev_rigid_match (pat_sets v p) u i) as [[j k]|] eqn:Hn.
      * destruct (find_rigid_matches_rev_go u v t j) as [ok' t'] eqn:Hf. inversion H; subst.
        destruct (IH j ok t' Ht Hf) as [Hk Ho].
        apply prev_rigid_match_spec in Hn. destruct Hn as (H1 & H2 & H4).
        split. simpl. rewrite Hk. reflexivity.
        intros Hok. simpl. rewrite Hr. repeat split; auto. lia.
        apply set_match_ok; auto.
      * inversion H; subst. split; auto. discriminate.
    + destruct (find_rigid_matches_rev_go u v t i) as [ok' t'] eqn:Hf. inversion H; subst.
      destruct (IH i ok t' Ht Hf) as [Hk Ho].
      split. simpl. rewrite Hk. reflexivity.
      intros Hok. simpl. rewrite Hr. auto.
Qed.

Lemma frm_rev_spec u v l ok l' : rigid_wf v l ->
  find_rigid_matches_rev u v l = (ok, l') ->
  map b_key l' = map b_key l /\ (ok = true -> ordered u v 0 (length u) l').
Proof.
  intros Hwf H. unfold find_rigid_matches_rev in H.
  destruct (find_rigid_matches_rev_go u v (rev l) (length u)) as [ok' r] eqn:Hf. inversion H; subst.
  assert (Hwf' : rigid_wf v (rev l)) by (apply Forall_rev; exact Hwf).
  destruct (frm_rev_go_spec u v (rev l) (length u) ok r Hwf' Hf) as [Hk Ho].
  split.
  - rewrite map_rev, Hk, map_rev. apply rev_involutive.
  - intros Hok. apply rordered_rev. auto.
Qed.

(* ================= the pattern list tiles v, alternating rigid / flexible ================= *)
Fixpoint tilesv (v : list re) (off : nat) (l : list bpat) (b : bool) : Prop :=
  match l with
  | [] => off = length v
  | p :: t => b_start p = off /\ off <= b_end p /\ b_end p <= length v /\ b_rigid p = b /\
              (b = true -> all_ranges (slice v off (b_end p))) /\ tilesv v (b_end p) t (negb b)
  end.
(* a non-empty list whose last pattern is flexible *)
Fixpoint ends_flex (l : list bpat) : Prop :=
  match l with
  | [] => False
  | p :: t => match t with [] => b_rigid p = false | _ :: _ => ends_flex t end
  end.

Lemma b_key_inv p q : b_key p = b_key q ->
  b_start p = b_start q /\ b_end p = b_end q /\ b_rigid p = b_rigid q.
Proof. unfold b_key. intros H. inversion H. auto. Qed.
Lemma tilesv_keys v : forall l l' off b, map b_key l = map b_key l' -> tilesv v off l b -> tilesv v off l' b.
Proof.
  induction l as [|p t IH]; intros [|q t'] off b Hk H; simpl in Hk; try discriminate.
  - exact H.
  - assert (Hpq : b_key p = b_key q) by congruence.
    assert (Ht : map b_key t = map b_key t') by congruence. apply b_key_inv in Hpq. destruct Hpq as (E1 & E2 & E3).
    simpl in *. rewrite <- E1, <- E2, <- E3. destruct H as (H1 & H2 & H3 & H4 & H5 & H6).
    repeat split; auto.
Qed.
Lemma ends_flex_keys : forall l l', map b_key l = map b_key l' -> ends_flex l -> ends_flex l'.
Proof.
  induction l as [|p t IH]; intros [|q t'] Hk H; simpl in Hk; try discriminate.
  - exact H.
  - assert (Hpq : b_key p = b_key q) by congruence.
    assert (Ht : map b_key t = map b_key t') by congruence. apply b_key_inv in Hpq. destruct Hpq as (E1 & E2 & E3).
    destruct t as [|p2 t2]; destruct t' as [|q2 t2']; try discriminate.
    + simpl in *. congruence.
    + apply (IH (q2 :: t2') Ht H).
Qed.
Lemma ends_flex_snoc l p : ends_flex (l ++ [p]) <-> b_rigid p = false.
Proof.
  induction l as [|x t IH]. simpl. tauto.
  destruct t; exact IH.
Qed.
Lemma tilesv_rigid_wf v : forall l off b, tilesv v off l b -> rigid_wf v l.
Proof.
  induction l as [|p t IH]; intros off b H. constructor.
  simpl in H. destruct H as (H1 & H2 & H3 & H4 & H5 & H6). constructor.
  - intros Hr. rewrite H1. apply H5. congruence.
  - apply (IH _ _ H6).
Qed.

(* ================= flexible regions ================= *)
Definition chk (v : list re) (p : bpat) : bool :=
  b_rigid p || flexible_match (slice v (b_start p) (b_end p)).

Lemma flexible_match_inv l : flexible_match l = true -> exists x, l = [x] /\ is_full x = true.
Proof. destruct l as [|x [|y t]]; simpl; try discriminate. eauto. Qed.

Lemma flex_sound u v : forall l b prev lo off,
  tilesv v off l b -> ends_flex l -> ordered u v lo (length u) l ->
  (if b then match l with q :: _ => prev = b_sm q | [] => True end else prev = lo) ->
  forallb (chk v) (set_flexible_regions_go prev l (length u)) = true ->
  lang_incl (CL (skipn prev u)) (CL (skipn off v)).
Proof.
  induction l as [|p t IH]; intros b prev lo off Ht He Ho Hp Hf.
  - destruct He.
  - simpl in Ht. destruct Ht as (Hs & Hle & Hlen & Hr & Hall & Ht').
    destruct b.
    + (* rigid head *)
      cbn [set_flexible_regions_go] in Hf. rewrite Hr in Hf. cbn [forallb] in Hf.
      apply andb_true_iff in Hf. destruct Hf as [_ Hf].
      simpl in Ho. rewrite Hr in Ho. destruct Ho as (H1 & H2 & Hok & Ho').
      subst prev.
      destruct t as [|q t']. { simpl in He. congruence. }
      assert (He' : ends_flex (q :: t')) by exact He.
      assert (IH' := IH false (b_em p) (b_em p) (b_end p) Ht' He' Ho' eq_refl Hf).
      rewrite (slice_skipn u (b_sm p) (b_em p) H2), (slice_skipn v off (b_end p) Hle).
      apply CL_incl_app; auto. apply all_incl. rewrite <- Hs. exact Hok.
    + (* flexible head *)
      subst prev. simpl in Ho. rewrite Hr in Ho.
      destruct t as [|q t'].
      * cbn [set_flexible_regions_go forallb] in Hf. rewrite Hr in Hf.
        apply andb_true_iff in Hf. destruct Hf as [Hf _].
        unfold chk in Hf. simpl in Hf. rewrite Hr, Hs in Hf. simpl in Hf.
        apply flexible_match_inv in Hf. destruct Hf as (x & Hx & Hfull).
        simpl in Ht'. rewrite slice_all in Hx by lia. rewrite Hx.
        intros w Hw _. apply CL_single. apply is_full_all; auto.
      * assert (Hq : b_rigid q = true). { simpl in Ht'. tauto. }
        assert (Hloq : lo <= b_sm q). { simpl in Ho. rewrite Hq in Ho. tauto. }
        cbn [set_flexible_regions_go] in Hf. rewrite Hr in Hf.
        cbn [forallb] in Hf. apply andb_true_iff in Hf. destruct Hf as [Hf1 Hf2].
        unfold chk in Hf1. simpl in Hf1. rewrite Hr, Hs in Hf1. simpl in Hf1.
        apply flexible_match_inv in Hf1. destruct Hf1 as (x & Hx & Hfull).
        simpl b_em in Hf2.
        assert (He' : ends_flex (q :: t')) by exact He.
        assert (IH' := IH true (b_sm q) lo (b_end p) Ht' He' Ho eq_refl Hf2).
        rewrite (slice_skipn u lo (b_sm q) Hloq), (slice_skipn v off (b_end p) Hle).
        apply CL_incl_app; auto. rewrite Hx.
        intros w Hw _. apply CL_single. apply is_full_all; auto.
Qed.

(* ================= base_patterns tiles v ================= *)
Lemma bp_go_acc : forall l i j rg acc,
  base_patterns_go l i j rg acc = acc ++ base_patterns_go l i j rg [].
Proof.
  induction l as [|x t IH]; intros i j rg acc; simpl.
  - reflexivity.
  - destruct (Bool.eqb rg (is_range x)).
    + apply IH.
    + rewrite (IH (S i) i (is_range x) (acc ++ [b_make j i rg])).
      rewrite (IH (S i) i (is_range x) [b_make j i rg]). rewrite <- app_assoc. reflexivity.
Qed.

Lemma bp_go_tiles : forall l pre cur rg,
  Forall (fun x => is_range x = rg) cur ->
  tilesv (pre ++ cur ++ l) (length pre)
         (base_patterns_go l (length pre + length cur) (length pre) rg []) rg.
Proof.
  induction l as [|x t IH]; intros pre cur rg Hcur.
  - simpl. repeat split; try lia.
    + rewrite !app_length. simpl. lia.
    + intros ->. rewrite slice_mid. exact Hcur.
    + rewrite !app_length. simpl. lia.
  - simpl base_patterns_go. destruct (Bool.eqb rg (is_range x)) eqn:E.
    + apply eqb_prop in E.
      replace (pre ++ cur ++ x :: t) with (pre ++ (cur ++ [x]) ++ t)
        by (rewrite <- (app_assoc cur); reflexivity).
      replace (S (length pre + length cur)) with (length pre + length (cur ++ [x]))
        by (rewrite app_length; simpl; lia).
      apply IH. apply Forall_app. split; auto.
    + rewrite bp_go_acc. simpl app.
      assert (Hri : is_range x = negb rg).
      { destruct rg, (is_range x); simpl in *; congruence. }
      simpl. repeat split; try lia.
      * rewrite !app_length. simpl. lia.
      * intros ->. rewrite slice_mid. exact Hcur.
      * replace (pre ++ cur ++ x :: t) with ((pre ++ cur) ++ [x] ++ t)
          by (rewrite <- app_assoc; reflexivity).
        replace (length pre + length cur) with (length (pre ++ cur)) by apply app_length.
        replace (S (length (pre ++ cur))) with (length (pre ++ cur) + length [x]) by (simpl; lia).
        rewrite Hri. apply IH. constructor; auto.
Qed.

Lemma base_patterns_tiles v : exists b, tilesv v 0 (base_patterns v) b.
Proof.
  destruct v as [|x t].
  - exists false. reflexivity.
  - exists (is_range x). apply (bp_go_tiles t [] [x] (is_range x)). constructor; auto.
Qed.

(* ================= stripping the rigid prefix and suffix ================= *)
Lemma tilesv_shift v d : forall l off b, d <= off -> tilesv v off l b ->
  tilesv (skipn d v) (off - d) (map (fun q => b_shift q d) l) b.
Proof.
  induction l as [|p t IH]; intros off b Hd H; simpl in *.
  - rewrite skipn_length. lia.
  - destruct H as (H1 & H2 & H3 & H4 & H5 & H6). repeat split; auto; try lia.
    + rewrite skipn_length. lia.
    + intros Hb. rewrite slice_skipn_shift by exact Hd. auto.
    + apply IH. lia. exact H6.
Qed.

Lemma prefix_step u v pat rest :
  tilesv v 0 (pat :: rest) true -> rigid_prefix_match u v pat = true ->
  tilesv (skipn (b_len pat) v) 0 (map (fun q => b_shift q (b_len pat)) rest) false /\
  (lang_incl (CL (skipn (b_len pat) u)) (CL (skipn (b_len pat) v)) -> lang_incl (CL u) (CL v)).
Proof.
  intros Ht Hm. simpl in Ht. destruct Ht as (H1 & H2 & H3 & H4 & H5 & H6).
  assert (Hlen : b_len pat = b_end pat) by (unfold b_len; lia).
  rewrite Hlen. split.
  - replace 0 with (b_end pat - b_end pat) by lia. apply tilesv_shift; auto.
  - intros Hincl. unfold rigid_prefix_match in Hm.
    destruct (Nat.leb (b_len pat) (length u)) eqn:Hle; [|discriminate].
    unfold pat_sets in Hm. rewrite H1 in Hm.
    assert (Hok := rigid_at_ok u _ 0 (H5 eq_refl) Hm).
    rewrite (csp_length _ (H5 eq_refl)), slice_length in Hok by exact H3.
    simpl in Hok. rewrite Nat.sub_0_r in Hok.
    change u with (skipn 0 u) at 1. change v with (skipn 0 v) at 1.
    rewrite (slice_skipn u 0 (b_end pat)), (slice_skipn v 0 (b_end pat)) by lia.
    apply CL_incl_app; auto. apply all_incl. exact Hok.
Qed.

Lemma tilesv_snoc v pat : forall l off b, tilesv v off (l ++ [pat]) b ->
  tilesv (firstn (b_start pat) v) off l b /\ off <= b_start pat /\ b_start pat <= b_end pat /\
  b_end pat = length v /\
  (b_rigid pat = true -> all_ranges (slice v (b_start pat) (b_end pat))) /\
  (b_rigid pat = true -> l = [] \/ ends_flex l).
Proof.
  induction l as [|p t IH]; intros off b H.
  - simpl in H. destruct H as (H1 & H2 & H3 & H4 & H5 & H6). simpl.
    rewrite firstn_length. repeat split; auto; try lia.
    intros Hr. rewrite H1. apply H5. congruence.
  - simpl app in H. simpl in H. destruct H as (H1 & H2 & H3 & H4 & H5 & H6).
    destruct (IH _ _ H6) as (I1 & I2 & I3 & I4 & I5 & I6).
    split; [|split; [lia|split; [lia|split; [exact I4|split; [exact I5|]]]]].
    + simpl. split; [exact H1|split; [exact H2|split; [|split; [exact H4|split; [|exact I1]]]]].
      * rewrite firstn_length. lia.
      * intros Hb. rewrite slice_firstn by exact I2. auto.
    + intros Hr. right. destruct (I6 Hr) as [->|He].
      * simpl in H6. destruct H6 as (_ & _ & _ & Hpb & _). simpl.
        destruct b; simpl in Hpb; congruence.
      * destruct t as [|q t']. destruct He. exact He.
Qed.

Lemma suffix_step u v p pat b :
  tilesv v 0 (p ++ [pat]) b -> b_rigid pat = true -> rigid_suffix_match u v pat = true ->
  tilesv (removelast_n v (b_len pat)) 0 p b /\ (p = [] \/ ends_flex p) /\
  (lang_incl (CL (removelast_n u (b_len pat))) (CL (removelast_n v (b_len pat))) ->
   lang_incl (CL u) (CL v)).
Proof.
  intros Ht Hr Hm. destruct (tilesv_snoc v pat p 0 b Ht) as (I1 & I2 & I3 & I4 & I5 & I6).
  assert (Hv : removelast_n v (b_len pat) = firstn (b_start pat) v).
  { unfold removelast_n, b_len. f_equal. lia. }
  rewrite Hv. repeat split; auto.
  intros Hincl. unfold rigid_suffix_match in Hm.
  destruct (Nat.leb (b_len pat) (length u)) eqn:Hle; [|discriminate]. apply Nat.leb_le in Hle.
  unfold pat_sets in Hm.
  assert (Hok := rigid_at_ok u _ _ (I5 Hr) Hm).
  rewrite (csp_length _ (I5 Hr)), slice_length in Hok by lia.
  unfold removelast_n in Hincl.
  rewrite <- (firstn_skipn (length u - b_len pat) u), <- (firstn_skipn (b_start pat) v).
  apply CL_incl_app; auto. apply all_incl.
  rewrite slice_all in Hok by (unfold b_len in *; lia).
  rewrite slice_all in Hok by lia. exact Hok.
Qed.

(* ================= the two matching passes ================= *)
Lemma match_flex_sound u v p p1 :
  tilesv v 0 p false -> p = [] \/ ends_flex p -> map b_key p1 = map b_key p ->
  ordered u v 0 (length u) p1 -> match_flexible_patterns u v p1 = true ->
  lang_incl (CL u) (CL v).
Proof.
  intros Ht He Hk Ho Hm. unfold match_flexible_patterns in Hm.
  destruct p1 as [|q t].
  - destruct p as [|? ?]; [|discriminate]. simpl in Ht.
    destruct v; [|discriminate]. destruct u; [|discriminate]. apply lang_incl_refl.
  - destruct He as [->|He]. discriminate.
    apply (flex_sound u v (q :: t) false 0 0 0); auto.
    + apply (tilesv_keys v p); auto.
    + apply (ends_flex_keys p); auto.
Qed.

Definition passes (p : list bpat) (u v : list re) : bool :=
  let '(ok1, p1) := find_rigid_matches u v p 0 in
  if ok1 && match_flexible_patterns u v p1 then true
  else let '(ok2, p2) := find_rigid_matches_rev u v p1 in
       ok2 && match_flexible_patterns u v p2.

Lemma passes_sound p u v :
  tilesv v 0 p false -> p = [] \/ ends_flex p -> passes p u v = true -> lang_incl (CL u) (CL v).
Proof.
  intros Ht He H. unfold passes in H.
  assert (Hwf := tilesv_rigid_wf v p 0 false Ht).
  destruct (find_rigid_matches u v p 0) as [ok1 p1] eqn:H1.
  destruct (frm_spec u v p 0 ok1 p1 Hwf H1) as [Hk1 Ho1].
  destruct (ok1 && match_flexible_patterns u v p1) eqn:E1.
  - apply andb_true_iff in E1. destruct E1 as [-> Hm].
    apply (match_flex_sound u v p p1); auto. apply Ho1; auto. lia.
  - destruct (find_rigid_matches_rev u v p1) as [ok2 p2] eqn:H2.
    assert (Hwf1 : rigid_wf v p1).
    { apply (tilesv_rigid_wf v p1 0 false). apply (tilesv_keys v p); auto. }
    destruct (frm_rev_spec u v p1 ok2 p2 Hwf1 H2) as [Hk2 Ho2].
    apply andb_true_iff in H. destruct H as [-> Hm].
    apply (match_flex_sound u v p p2); auto. congruence.
Qed.

Definition stage2 (p : list bpat) (u v : list re) : bool :=
  match (match rev p with
         | pat :: _ =>
           if b_rigid pat then
             if rigid_suffix_match u v pat then
               let len := b_len pat in Some (removelast p, removelast_n u len, removelast_n v len)
             else None
           else Some (p, u, v)
         | [] => Some (p, u, v)
         end) with
  | None => false
  | Some (p, u, v) => passes p u v
  end.

Lemma stage2_sound p u v : tilesv v 0 p false -> stage2 p u v = true -> lang_incl (CL u) (CL v).
Proof.
  intros Ht H. unfold stage2 in H.
  destruct (rev p) as [|pat r] eqn:Hr.
  - assert (p = []) by (rewrite <- (rev_involutive p), Hr; reflexivity). subst p.
    apply (passes_sound [] u v); auto.
  - assert (Hp : p = rev r ++ [pat]) by (rewrite <- (rev_involutive p), Hr; reflexivity).
    destruct (b_rigid pat) eqn:Hrig.
    + destruct (rigid_suffix_match u v pat) eqn:Hm; [|discriminate].
      rewrite Hp in Ht. rewrite Hp, removelast_last in H.
      destruct (suffix_step u v (rev r) pat false Ht Hrig Hm) as (T & E & I).
      apply I. apply (passes_sound (rev r)); auto.
    + apply (passes_sound p u v); auto. right. rewrite Hp. apply ends_flex_snoc. exact Hrig.
Qed.

Lemma concat_inclusion_unfold u v :
  concat_inclusion u v =
  match (match base_patterns v with
         | pat :: rest =>
           if b_rigid pat then
             if rigid_prefix_match u v pat then
               let len := b_len pat in Some (map (fun q => b_shift q len) rest, skipn len u, skipn len v)
             else None
           else Some (base_patterns v, u, v)
         | [] => Some (base_patterns v, u, v)
         end) with
  | None => false
  | Some (p, u, v) => stage2 p u v
  end.
Proof. reflexivity. Qed.

(* the matcher on lists of factors *)
Theorem concat_inclusion_list_sound u v :
  concat_inclusion u v = true -> lang_incl (CL u) (CL v).
Proof.
  rewrite concat_inclusion_unfold. destruct (base_patterns_tiles v) as [b Ht].
  destruct (base_patterns v) as [|pat rest] eqn:Hbp.
  - apply stage2_sound. exact Ht.
  - destruct (b_rigid pat) eqn:Hrig.
    + destruct (rigid_prefix_match u v pat) eqn:Hm; [|discriminate].
      assert (b = true). { simpl in Ht. destruct Ht as (_ & _ & _ & Hb & _). congruence. } subst b.
      destruct (prefix_step u v pat rest Ht Hm) as [T I].
      intros H. apply I. apply (stage2_sound _ _ _ T H).
    + assert (b = false). { simpl in Ht. destruct Ht as (_ & _ & _ & Hb & _). congruence. } subst b.
      apply stage2_sound. exact Ht.
Qed.

Theorem concat_inclusion_sound r s :
  concat_inclusion (flatten_concat r) (flatten_concat s) = true -> lang_incl (L r) (L s).
Proof.
  intros H w Hw Hr. apply flatten_concat_CL. apply (concat_inclusion_list_sound _ _ H w Hw).
  apply flatten_concat_CL. exact Hr.
Qed.

(* ================= sub_language ================= *)
(* the universe of terms: closed under children, ids identify terms *)
Definition closed (P : re -> Prop) : Prop := forall e c, P e -> In c (children (rnode e)) -> P c.
Definition id_inj (P : re -> Prop) : Prop := forall a b, P a -> P b -> rid a = rid b -> a = b.

Lemma case_empty_l r s : rnode r = NEmpty -> lang_incl (L r) (L s).
Proof. intros Hr w _ H. apply (L_empty r w Hr) in H. destruct H. Qed.
Lemma case_eps_l r s : rnode r = NEps -> wf_term s -> rnul s = true -> lang_incl (L r) (L s).
Proof. intros Hr Ws Hn w _ H. apply (L_eps r w Hr) in H. subst w. apply nullable_correct; auto. Qed.
Lemma case_compl r s a b : rnode r = NCompl a -> rnode s = NCompl b ->
  lang_incl (L b) (L a) -> lang_incl (L r) (L s).
Proof.
  intros Hr Hs Hi w Hw H. apply (L_compl r a w Hr) in H. apply (L_compl s b w Hs).
  intros Hb. apply H. apply Hi; auto.
Qed.
Lemma case_union_r r s l : rnode s = NUnion l ->
  (exists x, In x l /\ lang_incl (L r) (L x)) -> lang_incl (L r) (L s).
Proof. intros Hs (x & Hx & Hi) w Hw H. apply (L_union s l w Hs). exists x. split; auto. Qed.
Lemma case_inter_l r s l : rnode r = NInter l ->
  (exists x, In x l /\ lang_incl (L x) (L s)) -> lang_incl (L r) (L s).
Proof. intros Hr (x & Hx & Hi) w Hw H. apply Hi; auto. apply (L_inter r l w Hr); auto. Qed.
Lemma case_union_l r s l : rnode r = NUnion l ->
  (forall x, In x l -> lang_incl (L x) (L s)) -> lang_incl (L r) (L s).
Proof. intros Hr Hi w Hw H. apply (L_union r l w Hr) in H. destruct H as (x & Hx & H). apply (Hi x); auto. Qed.
Lemma case_inter_r r s l : rnode s = NInter l ->
  (forall x, In x l -> lang_incl (L r) (L x)) -> lang_incl (L r) (L s).
Proof. intros Hs Hi w Hw H. apply (L_inter s l w Hs). intros x Hx. apply (Hi x); auto. Qed.

Theorem sub_language_sound (P : re -> Prop) : closed P -> id_inj P ->
  forall fuel r s, P r -> P s -> wf_term r -> wf_term s ->
  sub_language fuel r s = true -> lang_incl (L r) (L s).
Proof.
  intros Hcl Hinj. induction fuel as [|f IH]; intros r s Pr Ps Wr Ws H. discriminate.
  cbn [sub_language] in H.
  destruct (re_eqb r s) eqn:E.
  { apply N.eqb_eq in E. rewrite (Hinj r s Pr Ps E). apply lang_incl_refl. }
  assert (Cr : forall c, In c (children (rnode r)) -> P c /\ wf_term c).
  { intros c Hc. split. apply (Hcl r c Pr Hc). apply (wf_children r Wr c Hc). }
  assert (Cs : forall c, In c (children (rnode s)) -> P c /\ wf_term c).
  { intros c Hc. split. apply (Hcl s c Ps Hc). apply (wf_children s Ws c Hc). }
  destruct (rnode r) as [| |sr|ar br|ar rr|ar|lr|lr] eqn:Hr;
  destruct (rnode s) as [| |ss|as_ bs|as_ rs|as_|ls|ls] eqn:Hs;
  simpl children in Cr, Cs;
  match type of H with
  | true = true => apply (case_empty_l r s Hr)
  | false = true => discriminate H
  | rnul s = true => apply (case_eps_l r s Hr Ws H)
  | concat_inclusion _ _ = true => apply (concat_inclusion_sound r s H)
  | sub_language f ?b ?a = true =>
      apply (case_compl r s a b Hr Hs);
      destruct (Cr a (or_introl eq_refl)); destruct (Cs b (or_introl eq_refl)); apply IH; auto
  | _ && existsb (fun x => sub_language f r x) ?l = true =>
      apply andb_true_iff in H; destruct H as [_ H]; apply existsb_exists in H;
      destruct H as (x & Hx & H); apply (case_union_r r s l Hs); exists x; split; [exact Hx|];
      destruct (Cs x Hx); apply IH; auto
  | _ && existsb (fun x => sub_language f x s) ?l = true =>
      apply andb_true_iff in H; destruct H as [_ H]; apply existsb_exists in H;
      destruct H as (x & Hx & H); apply (case_inter_l r s l Hr); exists x; split; [exact Hx|];
      destruct (Cr x Hx); apply IH; auto
  | _ && forallb (fun x => sub_language f x s) ?l = true =>
      apply andb_true_iff in H; destruct H as [_ H]; rewrite forallb_forall in H;
      apply (case_union_l r s l Hr); intros x Hx; destruct (Cr x Hx); apply IH; auto
  | _ && forallb (fun x => sub_language f r x) ?l = true =>
      apply andb_true_iff in H; destruct H as [_ H]; rewrite forallb_forall in H;
      apply (case_inter_r r s l Hs); intros x Hx; destruct (Cs x Hx); apply IH; auto
  end.
Qed.

Theorem included_in_sound (P : re -> Prop) : closed P -> id_inj P ->
  forall r s, P r -> P s -> wf_term r -> wf_term s ->
  included_in r s = true -> lang_incl (L r) (L s).
Proof. intros Hcl Hinj r s. unfold included_in. apply sub_language_sound; auto. Qed.

(* ================= subsumption pruning of unions ================= *)
(* the union of the languages of a list of terms *)
Definition UL (l : list re) : lang := fun w => exists x, In x l /\ L x w.

Lemma remove_subsumed_incl : forall rest kept x,
  In x (remove_subsumed_go kept rest) -> In x (kept ++ rest).
Proof.
  induction rest as [|cur t IH]; intros kept x H; simpl in H.
  - rewrite app_nil_r. exact H.
  - destruct (is_subsumed cur (kept ++ cur :: t)).
    + apply IH in H. apply in_app_or in H. apply in_or_app. simpl. tauto.
    + apply IH in H. rewrite <- app_assoc in H. exact H.
Qed.

Theorem remove_subsumed_lang (P : re -> Prop) : closed P -> id_inj P ->
  forall rest kept, Forall P (kept ++ rest) -> Forall wf_term (kept ++ rest) ->
  lang_eq (UL (remove_subsumed_go kept rest)) (UL (kept ++ rest)).
Proof.
  intros Hcl Hinj. induction rest as [|cur t IH]; intros kept HP HW.
  - simpl. rewrite app_nil_r. intros w _. tauto.
  - simpl. destruct (is_subsumed cur (kept ++ cur :: t)) eqn:E.
    + assert (HP' : Forall P (kept ++ t)).
      { apply Forall_app in HP. destruct HP as [H1 H2]. inversion H2; subst. apply Forall_app; auto. }
      assert (HW' : Forall wf_term (kept ++ t)).
      { apply Forall_app in HW. destruct HW as [H1 H2]. inversion H2; subst. apply Forall_app; auto. }
      intros w Hw. rewrite (IH kept HP' HW' w Hw). unfold UL. split.
      * intros (y & Hy & HL). exists y. split; auto.
        apply in_app_or in Hy. apply in_or_app. simpl. tauto.
      * intros (y & Hy & HL).
        apply in_app_or in Hy. destruct Hy as [Hy|[<-|Hy]].
        -- exists y. split; auto. apply in_or_app. auto.
        -- unfold is_subsumed in E. apply existsb_exists in E. destruct E as (x & Hx & E).
           apply andb_true_iff in E. destruct E as [Hne Hinc].
           rewrite Forall_forall in HP, HW.
           assert (Hcur : In cur (kept ++ cur :: t)) by (apply in_or_app; simpl; auto).
           exists x. split.
           ++ apply in_app_or in Hx. destruct Hx as [Hx|[<-|Hx]].
              ** apply in_or_app. auto.
              ** unfold re_eqb in Hne. rewrite N.eqb_refl in Hne. discriminate.
              ** apply in_or_app. auto.
           ++ apply (included_in_sound P Hcl Hinj cur x); auto.
        -- exists y. split; auto. apply in_or_app. auto.
    + assert (E2 : (kept ++ [cur]) ++ t = kept ++ cur :: t) by (rewrite <- app_assoc; reflexivity).
      specialize (IH (kept ++ [cur])). rewrite E2 in IH. apply IH; auto.
Qed.

(* ================= the intended universe ================= *)
(* ids are positions in id2re: for the terms owned by a manager, equal ids mean equal terms,
   whatever the manager.  Only closure under children needs the manager invariant. *)
Lemma owned_id_inj m : id_inj (owned m).
Proof.
  intros a b Ha Hb E. unfold owned in *. rewrite E in Ha. rewrite Ha in Hb. inversion Hb. reflexivity.
Qed.

Theorem included_in_sound_owned m : closed (owned m) ->
  forall r s, owned m r -> owned m s -> wf_term r -> wf_term s ->
  included_in r s = true -> lang_incl (L r) (L s).
Proof. intros Hcl. apply (included_in_sound (owned m) Hcl (owned_id_inj m)). Qed.

(* ================= a concrete instance (non-vacuity) ================= *)
(* r = [a-c] . Sigma^*   s = [a-z] . Sigma^*   built in a fresh manager *)
Definition c16_ex : option (mgr * re * re) :=
  do (m1, a) <- range new_mgr 97 99;
  do (m2, b) <- range m1 97 122;
  do (m3, r) <- concat a m2 (m_full m2);
  do (m4, s) <- concat b m3 (m_full m3);
  Some (m4, r, s).

Lemma owned_in m e : owned m e -> In e (id2re m).
Proof. unfold owned, at_id. apply nth_error_In. Qed.
Lemma closed_check m :
  Forall (fun e => Forall (owned m) (children (rnode e))) (id2re m) -> closed (owned m).
Proof.
  intros H e c He Hc. apply owned_in in He. rewrite Forall_forall in H.
  specialize (H e He). rewrite Forall_forall in H. auto.
Qed.

Definition c16_m : mgr := Eval vm_compute in match c16_ex with Some (m, _, _) => m | None => new_mgr end.
Definition c16_r : re := Eval vm_compute in match c16_ex with Some (_, r, _) => r | None => m_empty new_mgr end.
Definition c16_s : re := Eval vm_compute in match c16_ex with Some (_, _, s) => s | None => m_empty new_mgr end.

Lemma c16_ex_ok : exists m r s, c16_ex = Some (m, r, s) /\
  closed (owned m) /\ id_inj (owned m) /\ owned m r /\ owned m s /\ wf_term r /\ wf_term s /\
  rid r <> rid s /\ included_in r s = true /\ included_in s r = false /\
  remove_subsumed_go [] [r; s] = [s].
Proof.
  exists c16_m, c16_r, c16_s.
  split. { vm_compute. reflexivity. }
  split. { apply closed_check. unfold c16_m, id2re.
           repeat (apply Forall_cons || apply Forall_nil); vm_compute; reflexivity. }
  split. { apply owned_id_inj. }
  split. { vm_compute. reflexivity. }
  split. { vm_compute. reflexivity. }
  split. { vm_compute. repeat split; try reflexivity; try discriminate. }
  split. { vm_compute. repeat split; try reflexivity; try discriminate. }
  split. { vm_compute. discriminate. }
  split. { vm_compute. reflexivity. }
  split; vm_compute; reflexivity.
Qed.
