(* NerodeProofs.v -- C04, layer A: what the verdicts of the automata oracles of BuilderSpec.v mean.
     aut_wf / aut_wfb_iff, step_total (a wf automaton is a complete DFA on good characters),
     alphabet lemmas (representatives of the combined / joint partition stand for every good char),
     dfa_equiv_from_sound_complete, dfa_equiv_spec        (product exploration decides language equality)
     nerode_classes_spec                                  (Moore refinement = residual-language equality)
     collapsed_spec, nerode_index_spec
     collapsed_connected_minimal                          (Myhill-Nerode minimality, pigeonhole)
     C04_oracle_meaning.
   The lemmas of sections 1-14 take the two facts about merge_partitions (pmerge) they need as the
   explicit premise [merge_facts]; section 15 discharges it with MergeProofs.merge_wf / merge_refines
   and states the final, premise-free theorems quoted by Properties/C04.v. *)
Require Import Base CharSet Partition PartitionSpec PartitionProofs MergeProofs Automaton BuilderSpec.
Local Open Scope nat_scope.

(* ------------------------------------------------------------------ 0. the premise on pmerge *)
Definition merge_facts : Prop :=
  (forall p1 p2, pwf p1 -> pwf p2 -> pwf (pmerge p1 p2)) /\
  (forall p1 p2 x y, pwf p1 -> pwf p2 -> good x -> good y ->
     same_class (pmerge p1 p2) x y -> same_class p1 x y /\ same_class p2 x y).

(* ------------------------------------------------------------------ 1. list utilities *)
Lemma forallb_combine_seq {A} (f : nat * A -> bool) (d : A) : forall l k,
  forallb f (combine (seq k (length l)) l) = true <-> forall i, i < length l -> f (k + i, nth i l d) = true.
Proof.
  induction l as [|x t IH]; intros k; cbn [length seq combine forallb].
  - split; [intros _ i Hi; lia|reflexivity].
  - rewrite andb_true_iff, IH. split.
    + intros [H0 Ht] i Hi. destruct i as [|i].
      * rewrite Nat.add_0_r. exact H0.
      * cbn [nth]. replace (k + S i) with (S k + i) by lia. apply Ht. lia.
    + intros H. split.
      * specialize (H 0). rewrite Nat.add_0_r in H. apply H. lia.
      * intros i Hi. specialize (H (S i)). cbn [nth] in H. replace (S k + i) with (k + S i) by lia.
        apply H. lia.
Qed.

Lemma Forall2_in_l {A B} (R : A -> B -> Prop) l1 l2 x :
  Forall2 R l1 l2 -> In x l1 -> exists y, In y l2 /\ R x y.
Proof.
  induction 1 as [|a b l1 l2 Hab _ IH]; intros Hin; [destruct Hin|].
  destruct Hin as [-> | Hin].
  - exists b. split; [left; reflexivity|exact Hab].
  - destruct (IH Hin) as [y [Hy Hr]]. exists y. split; [right; exact Hy|exact Hr].
Qed.

Lemma Forall2_in_r {A B} (R : A -> B -> Prop) l1 l2 y :
  Forall2 R l1 l2 -> In y l2 -> exists x, In x l1 /\ R x y.
Proof.
  induction 1 as [|a b l1 l2 Hab _ IH]; intros Hin; [destruct Hin|].
  destruct Hin as [-> | Hin].
  - exists a. split; [left; reflexivity|exact Hab].
  - destruct (IH Hin) as [x [Hx Hr]]. exists x. split; [right; exact Hx|exact Hr].
Qed.

Lemma NoDup_app_intro {A} (l1 l2 : list A) : NoDup l1 -> NoDup l2 -> (forall x, In x l1 -> ~ In x l2) -> NoDup (l1 ++ l2).
Proof.
  induction l1 as [|x l1 IH]; intros H1 H2 H; [exact H2|].
  inversion H1 as [|x' l' Hx Hnd]; subst. cbn [app]. constructor.
  - intros Hin. apply in_app_or in Hin. destruct Hin as [Hin | Hin]; [exact (Hx Hin)|].
    apply (H x); [left; reflexivity|exact Hin].
  - apply IH; auto. intros y Hy. apply H. right. exact Hy.
Qed.

(* finite choice *)
Lemma finite_choice {A} (d : A) (P : nat -> A -> Prop) : forall n,
  (forall i, i < n -> exists x, P i x) -> exists l, length l = n /\ forall i, i < n -> P i (nth i l d).
Proof.
  induction n as [|n IH]; intros H.
  - exists []. split; [reflexivity|intros i Hi; lia].
  - destruct IH as [l [Hl Hp]]; [intros i Hi; apply H; lia|].
    destruct (H n) as [x Hx]; [lia|]. exists (l ++ [x]). split.
    + rewrite app_length. cbn [length]. lia.
    + intros i Hi. destruct (Nat.eq_dec i n) as [-> | Hne].
      * rewrite app_nth2 by lia. rewrite Hl, Nat.sub_diag. exact Hx.
      * rewrite app_nth1 by lia. apply Hp. lia.
Qed.

(* a duplicate-free list of numbers below n has at most n elements *)
Lemma nodup_bounded_length (l : list nat) n : NoDup l -> (forall x, In x l -> x < n) -> length l <= n.
Proof.
  intros Hnd Hb. rewrite <- (seq_length n 0). apply NoDup_incl_length; [exact Hnd|].
  intros x Hx. apply in_seq. specialize (Hb x Hx). lia.
Qed.

(* ------------------------------------------------------------------ 2. well-formed automata *)
Definition state_wf (n i : nat) (s : astate) : Prop :=
  a_id s = i /\ pwf (a_classes s) /\ length (a_succ s) = plen (a_classes s) /\
  (forall t, In t (a_succ s) -> t < n) /\
  match a_default s with Some d => d < n | None => pempty_complement (a_classes s) = true end.

Definition aut_wf (a : automaton) : Prop :=
  length (astates a) = num_states a /\ initial a < num_states a /\
  length (filter a_final (astates a)) = num_final a /\
  forall i, i < num_states a -> state_wf (num_states a) i (a_state a i).

Lemma aut_wfb_iff a : aut_wfb a = true <-> aut_wf a.
Proof.
  unfold aut_wfb, aut_wf. rewrite !andb_true_iff, !Nat.eqb_eq, Nat.ltb_lt.
  rewrite (forallb_combine_seq _ dstate). split.
  - intros [[[H1 H2] H3] H4]. split; [exact H1|]. split; [exact H2|]. split; [exact H3|].
    intros i H. rewrite <- H1 in H. specialize (H4 i H). cbn [Nat.add] in H4. fold (a_state a i) in H4.
    rewrite !andb_true_iff in H4. destruct H4 as [[[[Ha Hb] Hc] Hd] He].
    split; [apply Nat.eqb_eq; exact Ha|]. split; [apply pwfb_iff; exact Hb|].
    split; [apply Nat.eqb_eq; exact Hc|]. split.
    + intros t Ht. rewrite forallb_forall in Hd. specialize (Hd t Ht). apply Nat.ltb_lt in Hd. exact Hd.
    + destruct (a_default (a_state a i)); [apply Nat.ltb_lt; exact He|exact He].
  - intros [H1 [H2 [H3 H4]]]. split; [split; [split|]; assumption|].
    intros i Hi. rewrite H1 in Hi. destruct (H4 i Hi) as [Ha [Hb [Hc [Hd He]]]].
    cbn [Nat.add]. fold (a_state a i). rewrite !andb_true_iff.
    split; [split; [split; [split|]|]|].
    + apply Nat.eqb_eq. exact Ha.
    + apply pwfb_iff. exact Hb.
    + apply Nat.eqb_eq. exact Hc.
    + apply forallb_forall. intros t Ht. apply Nat.ltb_lt. auto.
    + destruct (a_default (a_state a i)); [apply Nat.ltb_lt; exact He|exact He].
Qed.

Lemma aut_wf_state a i : aut_wf a -> i < num_states a -> state_wf (num_states a) i (a_state a i).
Proof. intros [_ [_ [_ H]]]. apply H. Qed.

Lemma aut_wf_initial a : aut_wf a -> initial a < num_states a.
Proof. intros [_ [H _]]. exact H. Qed.

(* a well-formed automaton is a complete DFA over the good characters *)
Lemma step_total a s c : aut_wf a -> s < num_states a -> good c ->
  exists t, a_step a s c = Some t /\ t < num_states a.
Proof.
  intros Hwf Hs Hg. destruct (aut_wf_state a s Hwf Hs) as [_ [Hp [Hlen [Hsucc Hdef]]]].
  unfold a_step, a_next. destruct (pclass_of_char_res (a_classes (a_state a s)) c (pwf_sorted _ Hp)) as [k [Hk Hr]].
  rewrite Hk. destruct k as [i|].
  - destruct Hr as [iv [Hn _]]. apply nth_error_lt_len in Hn. fold (plen (a_classes (a_state a s))) in Hn.
    rewrite <- Hlen in Hn. destruct (nth_error_in_range _ _ Hn) as [t Ht].
    exists t. split; [exact Ht|]. apply Hsucc. eapply nth_error_In; eauto.
  - cbn [class_res_ok] in Hr. destruct (a_default (a_state a s)) as [d|].
    + exists d. split; [reflexivity|exact Hdef].
    + exfalso. apply Hr. apply (pempty_complement_iff _ Hp); auto.
Qed.

Definition total (a : automaton) : Prop :=
  forall s c, s < num_states a -> good c -> exists t, a_step a s c = Some t /\ t < num_states a.
Lemma aut_wf_total a : aut_wf a -> total a.
Proof. intros H s c. apply step_total. exact H. Qed.

(* ------------------------------------------------------------------ 3. runs and residual languages *)
Definition run (a : automaton) (s : nat) (w : list N) : option nat := a_str_next a s w.
Definition acc (a : automaton) (s : nat) (w : list N) : option bool := option_map (a_is_final a) (run a s w).
Definition lang_equiv_states (a : automaton) (s : nat) (b : automaton) (t : nat) : Prop :=
  forall w, goodw w -> acc a s w = acc b t w.
(* the two automata accept the same good words *)
Definition same_language (a b : automaton) : Prop := forall w, goodw w -> a_accepts a w = a_accepts b w.

Lemma run_nil a s : run a s [] = Some s.
Proof. reflexivity. Qed.
Lemma run_cons a s c w : run a s (c :: w) = match a_step a s c with Some q => run a q w | None => None end.
Proof. reflexivity. Qed.
Lemma acc_nil a s : acc a s [] = Some (a_is_final a s).
Proof. reflexivity. Qed.
Lemma acc_cons a s c w : acc a s (c :: w) = match a_step a s c with Some q => acc a q w | None => None end.
Proof. unfold acc. rewrite run_cons. destruct (a_step a s c); reflexivity. Qed.
Lemma accepts_acc a w : a_accepts a w = acc a (initial a) w.
Proof. reflexivity. Qed.

Lemma run_app a u : forall s v, run a s (u ++ v) = match run a s u with Some q => run a q v | None => None end.
Proof.
  induction u as [|c u IH]; intros s v; [reflexivity|].
  cbn [app]. rewrite !run_cons. destruct (a_step a s c); [apply IH|reflexivity].
Qed.
Lemma acc_app a u s v q : run a s u = Some q -> acc a s (u ++ v) = acc a q v.
Proof. intros H. unfold acc. rewrite run_app, H. reflexivity. Qed.

Lemma run_total a w : aut_wf a -> goodw w -> forall s, s < num_states a ->
  exists q, run a s w = Some q /\ q < num_states a.
Proof.
  intros Hwf Hg. induction Hg as [|c w Hc _ IH]; intros s Hs.
  - exists s. split; [reflexivity|exact Hs].
  - rewrite run_cons. destruct (step_total a s c Hwf Hs Hc) as [t [Ht Hlt]]. rewrite Ht. apply IH. exact Hlt.
Qed.

Lemma goodw_app u v : goodw u -> goodw v -> goodw (u ++ v).
Proof. unfold goodw. intros. apply Forall_app. split; assumption. Qed.

Lemma lang_equiv_refl a s : lang_equiv_states a s a s.
Proof. intros w _. reflexivity. Qed.
Lemma lang_equiv_sym a s b t : lang_equiv_states a s b t -> lang_equiv_states b t a s.
Proof. intros H w Hw. symmetry. apply H. exact Hw. Qed.
Lemma lang_equiv_trans a s b t c u :
  lang_equiv_states a s b t -> lang_equiv_states b t c u -> lang_equiv_states a s c u.
Proof. intros H1 H2 w Hw. rewrite H1 by exact Hw. apply H2. exact Hw. Qed.

(* equivalent states stay equivalent after reading the same good word *)
Lemma lang_equiv_run a s b t u s' t' : goodw u -> lang_equiv_states a s b t ->
  run a s u = Some s' -> run b t u = Some t' -> lang_equiv_states a s' b t'.
Proof.
  intros Hu H Hs Ht w Hw. rewrite <- (acc_app a u s w s' Hs), <- (acc_app b u t w t' Ht).
  apply H. apply goodw_app; assumption.
Qed.

(* ------------------------------------------------------------------ 4. alphabets *)
(* alpha stands for every good character, simultaneously in a and in b *)
Definition alpha_ok2 (a b : automaton) (alpha : list N) : Prop :=
  Forall good alpha /\
  forall c, good c -> exists r, In r alpha /\
    (forall s, s < num_states a -> a_step a s c = a_step a s r) /\
    (forall t, t < num_states b -> a_step b t c = a_step b t r).
Definition alpha_ok (a : automaton) (alpha : list N) : Prop := alpha_ok2 a a alpha.

(* characters in the same class of a state's partition have the same successor *)
Lemma same_class_step a s x y : aut_wf a -> s < num_states a -> good x -> good y ->
  same_class (a_classes (a_state a s)) x y -> a_step a s x = a_step a s y.
Proof.
  intros Hwf Hs Hx Hy Hc. destruct (aut_wf_state a s Hwf Hs) as [_ [Hp _]].
  apply (same_class_iff_class_of_char _ x y (pwf_sorted _ Hp) Hx Hy) in Hc.
  unfold a_step, a_next. rewrite Hc. reflexivity.
Qed.

(* P refines the partition of every state of a *)
Definition refines_all (P : part) (a : automaton) : Prop :=
  forall s x y, s < num_states a -> good x -> good y -> same_class P x y ->
    same_class (a_classes (a_state a s)) x y.

Lemma fold_merge_refines (Hm : merge_facts) : forall (l : list astate) (acc0 : part),
  pwf acc0 -> (forall st, In st l -> pwf (a_classes st)) ->
  pwf (fold_left (fun acc s => pmerge acc (a_classes s)) l acc0) /\
  forall x y, good x -> good y ->
    same_class (fold_left (fun acc s => pmerge acc (a_classes s)) l acc0) x y ->
    same_class acc0 x y /\ forall st, In st l -> same_class (a_classes st) x y.
Proof.
  destruct Hm as [Hwf Href]. induction l as [|st l IH]; intros acc0 Hacc Hl; cbn [fold_left].
  - split; [exact Hacc|]. intros x y _ _ H. split; [exact H|intros st []].
  - assert (Hst : pwf (a_classes st)) by (apply Hl; left; reflexivity).
    destruct (IH (pmerge acc0 (a_classes st))) as [Hw Hr].
    + apply Hwf; assumption.
    + intros st' Hin. apply Hl. right. exact Hin.
    + split; [exact Hw|]. intros x y Hx Hy H. destruct (Hr x y Hx Hy H) as [H1 H2].
      destruct (Href _ _ x y Hacc Hst Hx Hy H1) as [H3 H4]. split; [exact H3|].
      intros st' [<- | Hin]; [exact H4|apply H2; exact Hin].
Qed.

Lemma a_state_in a i : length (astates a) = num_states a -> i < num_states a -> In (a_state a i) (astates a).
Proof. intros Hl Hi. unfold a_state. apply nth_In. lia. Qed.

Lemma states_pwf a : aut_wf a -> forall st, In st (astates a) -> pwf (a_classes st).
Proof.
  intros Hwf st Hin. destruct (In_nth _ _ dstate Hin) as [i [Hi <-]].
  destruct Hwf as [Hl [_ [_ H]]]. rewrite Hl in Hi. destruct (H i Hi) as [_ [Hp _]]. exact Hp.
Qed.

Lemma combined_refines a : merge_facts -> aut_wf a ->
  pwf (combined_partition a) /\ refines_all (combined_partition a) a.
Proof.
  intros Hm Hwf. unfold combined_partition.
  destruct (fold_merge_refines Hm (astates a) pnew pnew_wf (states_pwf a Hwf)) as [Hw Hr].
  split; [exact Hw|]. intros s x y Hs Hx Hy H. destruct (Hr x y Hx Hy H) as [_ H2].
  apply H2. apply a_state_in; [apply Hwf|exact Hs].
Qed.

(* the picks of a well-formed partition are good and every good character is in the class of one *)
Lemma picks_cover P : pwf P ->
  Forall good (ppicks P) /\ forall c, good c -> exists r, In r (ppicks P) /\ good r /\ same_class P c r.
Proof.
  intros Hp. pose proof (ppicks_in_class P Hp) as HF. split.
  - apply Forall_forall. intros r Hr. destruct (Forall2_in_r _ _ _ r HF Hr) as [k [_ [Hg _]]]. exact Hg.
  - intros c Hc. destruct (in_class_exists P c Hc) as [k Hk].
    assert (Hin : In k (pclass_ids P)) by (apply pclass_ids_spec; [exact Hp|exists c; auto]).
    destruct (Forall2_in_l _ _ _ k HF Hin) as [r [Hr [Hg Hrk]]].
    exists r. split; [exact Hr|]. split; [exact Hg|].
    apply same_class_iff_in_class; auto. exists k. auto.
Qed.

Lemma refines_alpha_ok2 P a b : aut_wf a -> aut_wf b -> pwf P -> refines_all P a -> refines_all P b ->
  alpha_ok2 a b (ppicks P).
Proof.
  intros Ha Hb Hp Hra Hrb. destruct (picks_cover P Hp) as [Hg Hc]. split; [exact Hg|].
  intros c Hgc. destruct (Hc c Hgc) as [r [Hr [Hgr Hs]]]. exists r. split; [exact Hr|]. split.
  - intros s Hlt. apply same_class_step; auto.
  - intros t Hlt. apply same_class_step; auto.
Qed.

Lemma pick_alphabet_ok a : merge_facts -> aut_wf a -> alpha_ok a (pick_alphabet a).
Proof.
  intros Hm Hwf. destruct (combined_refines a Hm Hwf) as [Hp Hr].
  unfold alpha_ok, pick_alphabet. apply refines_alpha_ok2; auto.
Qed.

Lemma joint_alphabet_ok a b : merge_facts -> aut_wf a -> aut_wf b -> alpha_ok2 a b (joint_alphabet a b).
Proof.
  intros Hm Ha Hb. destruct (combined_refines a Hm Ha) as [Hpa Hra]. destruct (combined_refines b Hm Hb) as [Hpb Hrb].
  unfold joint_alphabet. pose proof Hm as [Hwf Href]. apply refines_alpha_ok2; auto.
  - intros s x y Hs Hx Hy H. destruct (Href _ _ x y Hpa Hpb Hx Hy H) as [H1 _]. apply Hra; auto.
  - intros s x y Hs Hx Hy H. destruct (Href _ _ x y Hpa Hpb Hx Hy H) as [_ H2]. apply Hrb; auto.
Qed.

(* the alphabet lemma in the form of the property text: characters in the same class of the combined
   partition have the same successor in every state *)
Lemma combined_same_successor a x y s : merge_facts -> aut_wf a -> s < num_states a -> good x -> good y ->
  same_class (combined_partition a) x y -> a_step a s x = a_step a s y.
Proof.
  intros Hm Hwf Hs Hx Hy H. destruct (combined_refines a Hm Hwf) as [_ Hr].
  apply same_class_step; auto.
Qed.

(* ------------------------------------------------------------------ 5. product exploration (dfa_equiv) *)
Lemma pair_eqb_iff p q : pair_eqb p q = true <-> p = q.
Proof.
  unfold pair_eqb. rewrite andb_true_iff, !Nat.eqb_eq. destruct p, q; cbn [fst snd]. split.
  - intros [-> ->]. reflexivity.
  - intros H. inversion H. auto.
Qed.
Lemma existsb_pair_in p l : existsb (pair_eqb p) l = true <-> In p l.
Proof.
  rewrite existsb_exists. split.
  - intros [x [Hx He]]. apply pair_eqb_iff in He. subst. exact Hx.
  - intros H. exists p. split; [exact H|apply pair_eqb_iff; reflexivity].
Qed.

Definition expand_step (a b : automaton) (s t : nat) (acc : option (list (nat * nat) * list (nat * nat))) (c : N) :=
  match acc with
  | None => None
  | Some (q1, s1) =>
    match a_step a s c, a_step b t c with
    | Some s', Some t' =>
      if existsb (pair_eqb (s', t')) s1 then Some (q1, s1) else Some (q1 ++ [(s', t')], (s', t') :: s1)
    | _, _ => None
    end
  end.

Lemma equiv_go_unfold f a b alpha s t q seen :
  equiv_go (S f) a b alpha ((s, t) :: q) seen =
  if negb (Bool.eqb (a_is_final a s) (a_is_final b t)) then Some false
  else match fold_left (expand_step a b s t) alpha (Some (q, seen)) with
       | None => None
       | Some (q1, s1) => equiv_go f a b alpha q1 s1
       end.
Proof. reflexivity. Qed.

Lemma expand_spec a b s t : aut_wf a -> aut_wf b -> s < num_states a -> t < num_states b ->
  forall alpha q seen, Forall good alpha ->
  exists new, fold_left (expand_step a b s t) alpha (Some (q, seen)) = Some (q ++ new, rev new ++ seen) /\
    NoDup new /\ (forall p, In p new -> ~ In p seen) /\
    (forall p, In p new -> exists c, In c alpha /\ a_step a s c = Some (fst p) /\ a_step b t c = Some (snd p)) /\
    (forall c s' t', In c alpha -> a_step a s c = Some s' -> a_step b t c = Some t' -> In (s', t') (rev new ++ seen)).
Proof.
  intros Ha Hb Hs Ht. induction alpha as [|c alpha IH]; intros q seen Hg.
  - exists []. cbn [fold_left rev app]. rewrite app_nil_r. split; [reflexivity|]. split; [constructor|].
    split; [intros p []|]. split; [intros p []|]. intros c s' t' [].
  - inversion Hg as [|c' l' Hc Hg']; subst. cbn [fold_left]. unfold expand_step at 2.
    destruct (step_total a s c Ha Hs Hc) as [s1 [Hs1 _]]. destruct (step_total b t c Hb Ht Hc) as [t1 [Ht1 _]].
    rewrite Hs1, Ht1. destruct (existsb (pair_eqb (s1, t1)) seen) eqn:Hex.
    + apply existsb_pair_in in Hex. destruct (IH q seen Hg') as [new [Hf [Hnd [Hns [Hfrom Hall]]]]].
      exists new. split; [exact Hf|]. split; [exact Hnd|]. split; [exact Hns|]. split.
      * intros p Hp. destruct (Hfrom p Hp) as [c0 [Hc0 H]]. exists c0. split; [right; exact Hc0|exact H].
      * intros c0 s' t' [<- | Hin] H1 H2.
        -- rewrite Hs1 in H1. rewrite Ht1 in H2. inversion H1. inversion H2. subst. apply in_or_app. right. exact Hex.
        -- eapply Hall; eauto.
    + assert (Hnin : ~ In (s1, t1) seen).
      { intros H. apply existsb_pair_in in H. congruence. }
      destruct (IH (q ++ [(s1, t1)]) ((s1, t1) :: seen) Hg') as [new [Hf [Hnd [Hns [Hfrom Hall]]]]].
      exists ((s1, t1) :: new). split.
      { rewrite Hf. cbn [rev]. rewrite <- !app_assoc. reflexivity. }
      split.
      { constructor; [|exact Hnd]. intros H. apply (Hns _ H). left. reflexivity. }
      split.
      { intros p [<- | Hp]; [exact Hnin|]. intros H. apply (Hns p Hp). right. exact H. }
      split.
      * intros p [<- | Hp].
        -- exists c. split; [left; reflexivity|]. cbn [fst snd]. auto.
        -- destruct (Hfrom p Hp) as [c0 [Hc0 H]]. exists c0. split; [right; exact Hc0|exact H].
      * cbn [rev]. intros c0 s' t' [<- | Hin] H1 H2.
        -- rewrite Hs1 in H1. rewrite Ht1 in H2. inversion H1. inversion H2. subst.
           rewrite <- app_assoc. apply in_or_app. right. left. reflexivity.
        -- rewrite <- app_assoc. eapply Hall; eauto.
Qed.

Definition pair_ok (a b : automaton) (p : nat * nat) : Prop := fst p < num_states a /\ snd p < num_states b.
Definition fin_agree (a b : automaton) (p : nat * nat) : Prop := a_is_final a (fst p) = a_is_final b (snd p).
Definition closed_at (a b : automaton) (alpha : list N) (seen : list (nat * nat)) (p : nat * nat) : Prop :=
  forall c s' t', In c alpha -> a_step a (fst p) c = Some s' -> a_step b (snd p) c = Some t' -> In (s', t') seen.
Definition einv (a b : automaton) (alpha : list N) (s0 t0 : nat) (queue seen : list (nat * nat)) : Prop :=
  NoDup seen /\ (forall p, In p seen -> pair_ok a b p) /\ incl queue seen /\
  (forall p, In p seen -> In p queue \/ (fin_agree a b p /\ closed_at a b alpha seen p)) /\
  (forall p, In p seen -> exists w, goodw w /\ run a s0 w = Some (fst p) /\ run b t0 w = Some (snd p)) /\
  In (s0, t0) seen.

Lemma seen_bound a b seen : NoDup seen -> (forall p, In p seen -> pair_ok a b p) ->
  length seen <= num_states a * num_states b.
Proof.
  intros Hnd Hok.
  replace (num_states a * num_states b) with (length (list_prod (seq 0 (num_states a)) (seq 0 (num_states b))))
    by (rewrite prod_length, !seq_length; reflexivity).
  apply NoDup_incl_length; [exact Hnd|].
  intros [x y] Hp. destruct (Hok _ Hp) as [H1 H2]. cbn [fst snd] in *. apply in_prod; apply in_seq; lia.
Qed.

(* a set of pairs that contains (s0,t0), agrees on finality and is closed under the alphabet proves
   language equivalence *)
Lemma closed_set_equiv a b alpha seen : aut_wf a -> aut_wf b -> alpha_ok2 a b alpha ->
  (forall p, In p seen -> pair_ok a b p) ->
  (forall p, In p seen -> fin_agree a b p /\ closed_at a b alpha seen p) ->
  forall w, goodw w -> forall p, In p seen -> acc a (fst p) w = acc b (snd p) w.
Proof.
  intros Ha Hb [Hgood Hal] Hok Hcl w Hw. induction Hw as [|c w Hc _ IH]; intros p Hp.
  - rewrite !acc_nil. f_equal. apply (Hcl p Hp).
  - rewrite !acc_cons. destruct (Hok p Hp) as [H1 H2]. destruct (Hal c Hc) as [r [Hr [Hra Hrb]]].
    rewrite (Hra _ H1), (Hrb _ H2).
    assert (Hgr : good r) by (rewrite Forall_forall in Hgood; auto).
    destruct (step_total a _ r Ha H1 Hgr) as [s' [Hs' _]]. destruct (step_total b _ r Hb H2 Hgr) as [t' [Ht' _]].
    rewrite Hs', Ht'. apply (IH (s', t')). destruct (Hcl p Hp) as [_ Hc']. eapply Hc'; eauto.
Qed.

Lemma equiv_go_spec a b alpha s0 t0 : aut_wf a -> aut_wf b -> alpha_ok2 a b alpha ->
  forall fuel queue seen, einv a b alpha s0 t0 queue seen ->
  fuel + length seen > num_states a * num_states b + length queue ->
  exists r, equiv_go fuel a b alpha queue seen = Some r /\ (r = true <-> lang_equiv_states a s0 b t0).
Proof.
  intros Ha Hb Hal. induction fuel as [|f IH]; intros queue seen Hinv Hm.
  - exfalso. destruct Hinv as [Hnd [Hok _]]. pose proof (seen_bound a b seen Hnd Hok). lia.
  - destruct queue as [|[s t] q].
    + exists true. split; [reflexivity|]. split; [|reflexivity]. intros _ w Hw.
      destruct Hinv as [Hnd [Hok [_ [Hpr [_ Hin0]]]]].
      apply (closed_set_equiv a b alpha seen Ha Hb Hal Hok) with (p := (s0, t0)); auto.
      intros p Hp. destruct (Hpr p Hp) as [[] | H]. exact H.
    + rewrite equiv_go_unfold. destruct Hinv as [Hnd [Hok [Hincl [Hpr [Hreach Hin0]]]]].
      assert (Hst : In (s, t) seen) by (apply Hincl; left; reflexivity).
      destruct (Hok _ Hst) as [Hs Ht]. cbn [fst snd] in Hs, Ht.
      destruct (Bool.eqb (a_is_final a s) (a_is_final b t)) eqn:Hfin; cbn [negb].
      * apply eqb_prop in Hfin.
        destruct (expand_spec a b s t Ha Hb Hs Ht alpha q seen (proj1 Hal)) as [new [Hf [Hndn [Hns [Hfrom Hall]]]]].
        rewrite Hf. apply IH.
        -- split; [|split; [|split; [|split; [|split]]]].
           ++ apply NoDup_app_intro; [apply NoDup_rev; exact Hndn|exact Hnd|].
              intros p Hp. apply Hns. apply in_rev. exact Hp.
           ++ intros p Hp. apply in_app_or in Hp. destruct Hp as [Hp | Hp]; [|apply Hok; exact Hp].
              apply in_rev in Hp. destruct (Hfrom p Hp) as [c [Hc [H1 H2]]].
              assert (Hgc : good c) by (apply (proj1 (Forall_forall good alpha) (proj1 Hal)); exact Hc).
              destruct (step_total a s c Ha Hs Hgc) as [x [Hx Hxl]]. destruct (step_total b t c Hb Ht Hgc) as [y [Hy Hyl]].
              split; [congruence..].
           ++ intros p Hp. apply in_or_app. apply in_app_or in Hp. destruct Hp as [Hp | Hp].
              ** right. apply Hincl. right. exact Hp.
              ** left. apply in_rev. rewrite rev_involutive. exact Hp.
           ++ intros p Hp. apply in_app_or in Hp. destruct Hp as [Hp | Hp].
              ** left. apply in_or_app. right. apply in_rev. exact Hp.
              ** destruct (Hpr p Hp) as [[<- | Hq] | [Hfa Hcl]].
                 --- right. split; [exact Hfin|]. intros c s' t' Hc H1 H2. eapply Hall; eauto.
                 --- left. apply in_or_app. left. exact Hq.
                 --- right. split; [exact Hfa|]. intros c s' t' Hc H1 H2. apply in_or_app. right. eapply Hcl; eauto.
           ++ intros p Hp. apply in_app_or in Hp. destruct Hp as [Hp | Hp]; [|apply Hreach; exact Hp].
              apply in_rev in Hp. destruct (Hfrom p Hp) as [c [Hc [H1 H2]]].
              assert (Hgc : good c) by (apply (proj1 (Forall_forall good alpha) (proj1 Hal)); exact Hc).
              destruct (Hreach _ Hst) as [w [Hw [Hra Hrb]]]. cbn [fst snd] in Hra, Hrb.
              exists (w ++ [c]). split; [apply goodw_app; [exact Hw|constructor; [exact Hgc|constructor]]|].
              rewrite !run_app, Hra, Hrb, !run_cons, H1, H2. split; reflexivity.
           ++ apply in_or_app. right. exact Hin0.
        -- rewrite !app_length, rev_length. cbn [length] in Hm. lia.
      * exists false. split; [reflexivity|]. split; [discriminate|]. intros Heq. exfalso.
        destruct (Hreach _ Hst) as [w [Hw [Hra Hrb]]]. cbn [fst snd] in Hra, Hrb.
        specialize (Heq w Hw). unfold acc in Heq. rewrite Hra, Hrb in Heq. cbn [option_map] in Heq.
        inversion Heq as [Hf]. rewrite Hf in Hfin. rewrite eqb_reflx in Hfin. discriminate.
Qed.

(* dfa_equiv_from never runs out of fuel on well-formed automata and decides equality of the residual
   languages of (a, s) and (b, t) *)
Theorem dfa_equiv_from_total a b s t : merge_facts -> aut_wf a -> aut_wf b ->
  s < num_states a -> t < num_states b ->
  exists r, dfa_equiv_from a b s t = Some r /\ (r = true <-> lang_equiv_states a s b t).
Proof.
  intros Hm Ha Hb Hs Ht. unfold dfa_equiv_from.
  apply (equiv_go_spec a b (joint_alphabet a b) s t Ha Hb (joint_alphabet_ok a b Hm Ha Hb)).
  - split; [|split; [|split; [|split; [|split]]]].
    + constructor; [intros []|constructor].
    + intros p [<- | []]. split; assumption.
    + intros p Hp. exact Hp.
    + intros p Hp. left. exact Hp.
    + intros p [<- | []]. exists []. split; [constructor|]. split; reflexivity.
    + left. reflexivity.
  - cbn [length]. lia.
Qed.

Theorem dfa_equiv_from_sound_complete a b s t : merge_facts -> aut_wf a -> aut_wf b ->
  s < num_states a -> t < num_states b ->
  dfa_equiv_from a b s t <> None /\
  (dfa_equiv_from a b s t = Some true <-> lang_equiv_states a s b t).
Proof.
  intros Hm Ha Hb Hs Ht. destruct (dfa_equiv_from_total a b s t Hm Ha Hb Hs Ht) as [r [Hr Hiff]].
  rewrite Hr. split; [discriminate|]. rewrite <- Hiff. split; [intros H; inversion H; reflexivity|intros ->; reflexivity].
Qed.

Theorem dfa_equiv_from_false a b s t : merge_facts -> aut_wf a -> aut_wf b ->
  s < num_states a -> t < num_states b ->
  (dfa_equiv_from a b s t = Some false <-> ~ lang_equiv_states a s b t).
Proof.
  intros Hm Ha Hb Hs Ht. destruct (dfa_equiv_from_total a b s t Hm Ha Hb Hs Ht) as [r [Hr Hiff]].
  rewrite Hr. destruct r.
  - split; [discriminate|]. intros H. exfalso. apply H. apply Hiff. reflexivity.
  - split; [|reflexivity]. intros _ H. apply Hiff in H. discriminate.
Qed.

Lemma same_language_iff a b : same_language a b <-> lang_equiv_states a (initial a) b (initial b).
Proof. unfold same_language, lang_equiv_states. split; intros H w Hw; specialize (H w Hw); exact H. Qed.

Theorem dfa_equiv_spec a b : merge_facts -> aut_wf a -> aut_wf b ->
  dfa_equiv a b <> None /\ (dfa_equiv a b = Some true <-> same_language a b).
Proof.
  intros Hm Ha Hb. rewrite same_language_iff. unfold dfa_equiv.
  apply dfa_equiv_from_sound_complete; auto using aut_wf_initial.
Qed.

(* ------------------------------------------------------------------ 6. class vectors and counting *)
(* cls assigns to each of n states a class number; the numbers used are exactly 0..k-1 *)
Definition cv (n : nat) (cls : list nat) (k : nat) : Prop :=
  length cls = n /\ k <= n /\ (forall s, s < n -> nth s cls 0 < k) /\
  (forall v, v < k -> exists s, s < n /\ nth s cls 0 = v).
Definition realizes (n : nat) (cls : list nat) (R : nat -> nat -> Prop) : Prop :=
  forall s t, s < n -> t < n -> (nth s cls 0 = nth t cls 0 <-> R s t).
Definition refines_cv (n : nat) (cls' cls : list nat) : Prop :=
  forall s t, s < n -> t < n -> nth s cls' 0 = nth t cls' 0 -> nth s cls 0 = nth t cls 0.

Lemma cv_reps n cls k : cv n cls k ->
  exists reps, length reps = k /\ forall v, v < k -> nth v reps 0 < n /\ nth (nth v reps 0) cls 0 = v.
Proof. intros [_ [_ [_ H]]]. apply (finite_choice 0 (fun v s => s < n /\ nth s cls 0 = v)). exact H. Qed.

Lemma refine_count n cls k cls' k' : cv n cls k -> cv n cls' k' -> refines_cv n cls' cls ->
  k <= k' /\ (k = k' -> forall s t, s < n -> t < n -> nth s cls 0 = nth t cls 0 -> nth s cls' 0 = nth t cls' 0).
Proof.
  intros Hcv Hcv' Href. destruct (cv_reps n cls k Hcv) as [reps [Hlen Hrep]].
  set (f := fun s => nth s cls' 0). set (L := map f reps).
  assert (HL : length L = k) by (unfold L; rewrite map_length; exact Hlen).
  assert (Hnth : forall i, nth i L (f 0) = f (nth i reps 0)) by (intros i; unfold L; apply map_nth).
  assert (Hnd : NoDup L).
  { apply (NoDup_nth L (f 0)). intros i j Hi Hj Heq. rewrite HL in Hi, Hj. rewrite !Hnth in Heq. unfold f in Heq.
    destruct (Hrep i Hi) as [Hi1 Hi2]. destruct (Hrep j Hj) as [Hj1 Hj2].
    apply Href in Heq; auto. congruence. }
  assert (Hb : forall x, In x L -> x < k').
  { intros x Hx. unfold L in Hx. apply in_map_iff in Hx. destruct Hx as [s [<- Hs]].
    destruct (In_nth _ _ 0 Hs) as [i [Hi <-]]. rewrite Hlen in Hi. destruct (Hrep i Hi) as [Hi1 _].
    destruct Hcv' as [_ [_ [H _]]]. apply H. exact Hi1. }
  split.
  - rewrite <- HL. apply nodup_bounded_length; assumption.
  - intros Hk.
    assert (Hinc : incl (seq 0 k') L).
    { apply NoDup_length_incl; [exact Hnd|rewrite seq_length; lia|].
      intros x Hx. apply in_seq. specialize (Hb x Hx). lia. }
    assert (Hcan : forall s, s < n -> nth s cls' 0 = nth (nth (nth s cls 0) reps 0) cls' 0).
    { intros s Hs. assert (Hin : In (nth s cls' 0) L).
      { apply Hinc. apply in_seq. destruct Hcv' as [_ [_ [H _]]]. specialize (H s Hs). lia. }
      destruct (In_nth _ _ (f 0) Hin) as [i [Hi Hv]]. rewrite HL in Hi. rewrite Hnth in Hv. unfold f in Hv.
      destruct (Hrep i Hi) as [Hi1 Hi2].
      assert (He : nth (nth i reps 0) cls 0 = nth s cls 0) by (apply Href; auto).
      rewrite <- He, Hi2. symmetry. exact Hv. }
    intros s t Hs Ht Heq. rewrite (Hcan s Hs), (Hcan t Ht), Heq. reflexivity.
Qed.

Lemma fold_max_ge : forall l m, m <= fold_left Nat.max l m /\ forall x, In x l -> x <= fold_left Nat.max l m.
Proof.
  induction l as [|y l IH]; intros m; cbn [fold_left].
  - split; [lia|intros x []].
  - destruct (IH (Nat.max m y)) as [H1 H2]. split; [lia|].
    intros x [<- | Hx]; [lia|apply H2; exact Hx].
Qed.
Lemma fold_max_in : forall l m, fold_left Nat.max l m = m \/ In (fold_left Nat.max l m) l.
Proof.
  induction l as [|y l IH]; intros m; cbn [fold_left]; [left; reflexivity|].
  destruct (IH (Nat.max m y)) as [H | H].
  - rewrite H. destruct (Nat.max_spec m y) as [[_ ->] | [_ ->]]; [right; left; reflexivity|left; reflexivity].
  - right. right. exact H.
Qed.

Lemma cv_num_classes n cls k : 0 < n -> cv n cls k -> num_classes cls = k.
Proof.
  intros Hn [Hlen [_ [Hlt Hsur]]]. unfold num_classes.
  assert (Hk : 0 < k) by (specialize (Hlt 0 Hn); lia).
  destruct (fold_max_ge cls 0) as [_ Hge].
  assert (Hle : fold_left Nat.max cls 0 <= k - 1).
  { destruct (fold_max_in cls 0) as [-> | Hin]; [lia|].
    destruct (In_nth _ _ 0 Hin) as [i [Hi Hv]]. rewrite Hlen in Hi. specialize (Hlt i Hi). lia. }
  destruct (Hsur (k - 1)) as [s [Hs Hv]]; [lia|].
  assert (k - 1 <= fold_left Nat.max cls 0).
  { apply Hge. rewrite <- Hv. apply nth_In. lia. }
  lia.
Qed.

(* ------------------------------------------------------------------ 7. assign_classes *)
Lemma list_eq_combine : forall l1 l2 : list nat, length l1 = length l2 ->
  forallb (fun p => Nat.eqb (fst p) (snd p)) (combine l1 l2) = true -> l1 = l2.
Proof.
  induction l1 as [|x l1 IH]; intros [|y l2] Hl H; try discriminate; [reflexivity|].
  cbn [combine forallb fst snd] in H. apply andb_true_iff in H. destruct H as [H1 H2].
  apply Nat.eqb_eq in H1. cbn [fst snd] in H1. subst y. f_equal. apply IH; [cbn [length] in Hl; lia|exact H2].
Qed.
Lemma combine_refl_forallb : forall l : list nat, forallb (fun p => Nat.eqb (fst p) (snd p)) (combine l l) = true.
Proof. induction l as [|x l IH]; [reflexivity|]. cbn [combine forallb fst snd]. rewrite Nat.eqb_refl. exact IH. Qed.

Lemma sig_eqb_iff x y : sig_eqb x y = true <-> x = y.
Proof.
  unfold sig_eqb. destruct x as [a l], y as [b m]. cbn [fst snd]. split.
  - rewrite !andb_true_iff, !Nat.eqb_eq. intros [[-> Hl] H]. f_equal. apply list_eq_combine; assumption.
  - intros H. inversion H. subst. rewrite !Nat.eqb_refl. cbn [andb]. apply combine_refl_forallb.
Qed.

Definition find_sig (s : nat * list nat) :=
  fix find (l : list (nat * list nat)) (i : nat) : option nat :=
    match l with [] => None | x :: r => if sig_eqb x s then Some i else find r (S i) end.

Lemma assign_classes_cons s t known :
  assign_classes (s :: t) known =
  match find_sig s known 0 with
  | Some i => i :: assign_classes t known
  | None => length known :: assign_classes t (known ++ [s])
  end.
Proof. reflexivity. Qed.

Lemma find_sig_spec s : forall l i,
  match find_sig s l i with
  | Some k => exists j, k = i + j /\ nth_error l j = Some s
  | None => ~ In s l
  end.
Proof.
  induction l as [|x r IH]; intros i; cbn [find_sig].
  - intros [].
  - destruct (sig_eqb x s) eqn:He.
    + apply sig_eqb_iff in He. subst x. exists 0. split; [lia|reflexivity].
    + specialize (IH (S i)). fold (find_sig s) in *. destruct (find_sig s r (S i)) as [k|].
      * destruct IH as [j [Hk Hn]]. exists (S j). split; [lia|exact Hn].
      * intros [Hx | Hin]; [|exact (IH Hin)]. subst x.
        assert (sig_eqb s s = true) by (apply sig_eqb_iff; reflexivity). congruence.
Qed.

Lemma assign_spec_gen : forall sigs known, NoDup known ->
  exists K, NoDup K /\ (exists extra, K = known ++ extra /\ forall x, In x extra -> In x sigs) /\
    Forall2 (fun s c => nth_error K c = Some s) sigs (assign_classes sigs known).
Proof.
  induction sigs as [|s t IH]; intros known Hnd.
  - exists known. split; [exact Hnd|]. split; [exists []; split; [rewrite app_nil_r; reflexivity|intros x []]|constructor].
  - rewrite assign_classes_cons. pose proof (find_sig_spec s known 0) as Hf.
    destruct (find_sig s known 0) as [k|].
    + destruct Hf as [j [Hk Hn]]. cbn [Nat.add] in Hk. subst j.
      destruct (IH known Hnd) as [K [HK [[extra [He Hin]] HF]]]. exists K. split; [exact HK|]. split.
      * exists extra. split; [exact He|]. intros x Hx. right. apply Hin. exact Hx.
      * constructor; [|exact HF]. subst K. rewrite nth_error_app1; [exact Hn|]. eapply nth_error_lt_len; eauto.
    + destruct (IH (known ++ [s])) as [K [HK [[extra [He Hin]] HF]]]; [apply NoDup_snoc; assumption|].
      exists K. split; [exact HK|]. split.
      * exists (s :: extra). split; [rewrite He, <- app_assoc; reflexivity|].
        intros x [<- | Hx]; [left; reflexivity|right; apply Hin; exact Hx].
      * constructor; [|exact HF]. subst K. rewrite <- app_assoc. rewrite nth_error_app2 by lia.
        rewrite Nat.sub_diag. reflexivity.
Qed.

Lemma Forall2_nth {A B} (R : A -> B -> Prop) (d1 : A) (d2 : B) : forall l1 l2, Forall2 R l1 l2 ->
  forall i, i < length l1 -> R (nth i l1 d1) (nth i l2 d2).
Proof.
  induction 1 as [|x y l1 l2 Hxy _ IH]; intros i Hi; cbn [length] in Hi; [lia|].
  destruct i as [|i]; cbn [nth]; [exact Hxy|apply IH; lia].
Qed.

Lemma Forall2_len {A B} (R : A -> B -> Prop) l1 l2 : Forall2 R l1 l2 -> length l1 = length l2.
Proof. induction 1; cbn [length]; congruence. Qed.

Lemma assign_cv (d : nat * list nat) sigs :
  exists k, cv (length sigs) (assign_classes sigs []) k /\
    forall i j, i < length sigs -> j < length sigs ->
      (nth i (assign_classes sigs []) 0 = nth j (assign_classes sigs []) 0 <-> nth i sigs d = nth j sigs d).
Proof.
  destruct (assign_spec_gen sigs [] (NoDup_nil _)) as [K [HK [[extra [He Hin]] HF]]].
  cbn [app] in He. subst extra. set (cls := assign_classes sigs []) in *.
  assert (Hn : forall i, i < length sigs -> nth_error K (nth i cls 0) = Some (nth i sigs d)).
  { intros i Hi. apply (Forall2_nth _ d 0 _ _ HF i Hi). }
  exists (length K). split; [split; [|split; [|split]]|].
  - symmetry. eapply Forall2_len; eauto.
  - apply NoDup_incl_length; [exact HK|]. intros x Hx. apply Hin. exact Hx.
  - intros s Hs. eapply nth_error_lt_len. apply Hn. exact Hs.
  - intros v Hv. destruct (nth_error_in_range K v Hv) as [x Hx].
    assert (Hxs : In x sigs) by (apply Hin; eapply nth_error_In; eauto).
    destruct (In_nth _ _ d Hxs) as [i [Hi Hv']]. exists i. split; [exact Hi|].
    apply (proj1 (NoDup_nth_error K) HK); [eapply nth_error_lt_len; apply Hn; exact Hi|].
    rewrite Hn by exact Hi. rewrite Hv', Hx. reflexivity.
  - intros i j Hi Hj. split.
    + intros Heq. pose proof (Hn i Hi) as H1. pose proof (Hn j Hj) as H2. rewrite Heq in H1. congruence.
    + intros Heq. apply (proj1 (NoDup_nth_error K) HK); [eapply nth_error_lt_len; apply Hn; exact Hi|].
      rewrite (Hn i Hi), (Hn j Hj), Heq. reflexivity.
Qed.

(* ------------------------------------------------------------------ 8. Moore refinement *)
Definition stepd (a : automaton) (s : nat) (c : N) : nat := match a_step a s c with Some q => q | None => 0 end.

Lemma stepd_spec a s c : aut_wf a -> s < num_states a -> good c ->
  a_step a s c = Some (stepd a s c) /\ stepd a s c < num_states a.
Proof.
  intros Hwf Hs Hc. unfold stepd. destruct (step_total a s c Hwf Hs Hc) as [t [-> Ht]]. split; [reflexivity|exact Ht].
Qed.

Lemma acc_cons_d a s c w : aut_wf a -> s < num_states a -> good c -> acc a s (c :: w) = acc a (stepd a s c) w.
Proof. intros Hwf Hs Hc. rewrite acc_cons. destruct (stepd_spec a s c Hwf Hs Hc) as [-> _]. reflexivity. Qed.

(* equality of the residual languages up to words of length k *)
Definition eqk (a : automaton) (k : nat) (s t : nat) : Prop :=
  forall w, goodw w -> length w <= k -> acc a s w = acc a t w.

Lemma eqk_S a m s t : aut_wf a -> s < num_states a -> t < num_states a ->
  (eqk a (S m) s t <->
   a_is_final a s = a_is_final a t /\ forall c, good c -> eqk a m (stepd a s c) (stepd a t c)).
Proof.
  intros Hwf Hs Ht. split.
  - intros H. split.
    + specialize (H [] (Forall_nil _)). rewrite !acc_nil in H. cbn [length] in H. injection (H (Nat.le_0_l _)). auto.
    + intros c Hc w Hw Hl. rewrite <- (acc_cons_d a s c w Hwf Hs Hc), <- (acc_cons_d a t c w Hwf Ht Hc).
      apply H; [constructor; assumption|cbn [length]; lia].
  - intros [Hf Hc] w Hw Hl. destruct Hw as [|c w Hgc Hw].
    + rewrite !acc_nil, Hf. reflexivity.
    + rewrite (acc_cons_d a s c w Hwf Hs Hgc), (acc_cons_d a t c w Hwf Ht Hgc).
      apply Hc; [exact Hgc|exact Hw|cbn [length] in Hl; lia].
Qed.

Lemma eqk_0 a s t : eqk a 0 s t <-> a_is_final a s = a_is_final a t.
Proof.
  split.
  - intros H. specialize (H [] (Forall_nil _) (Nat.le_refl _)). rewrite !acc_nil in H. injection H. auto.
  - intros Hf w Hw Hl. destruct w; [|cbn [length] in Hl; lia]. rewrite !acc_nil, Hf. reflexivity.
Qed.

Lemma eqk_mono a j s t : eqk a (S j) s t -> eqk a j s t.
Proof. intros H w Hw Hl. apply H; [exact Hw|lia]. Qed.

Lemma lang_equiv_eqk a s t : lang_equiv_states a s a t <-> forall k, eqk a k s t.
Proof.
  split.
  - intros H k w Hw _. apply H. exact Hw.
  - intros H w Hw. apply (H (length w)); [exact Hw|lia].
Qed.

(* once a refinement round changes nothing, no later round does *)
Lemma eqk_stable a j : aut_wf a ->
  (forall s t, s < num_states a -> t < num_states a -> eqk a j s t -> eqk a (S j) s t) ->
  forall m s t, s < num_states a -> t < num_states a -> eqk a j s t -> eqk a (m + j) s t.
Proof.
  intros Hwf Hst. induction m as [|m IH]; intros s t Hs Ht H; [exact H|].
  cbn [Nat.add]. apply (eqk_S a (m + j) s t Hwf Hs Ht).
  apply Hst in H; auto. apply (eqk_S a j s t Hwf Hs Ht) in H. destruct H as [Hf Hc].
  split; [exact Hf|]. intros c Hgc. apply IH; [apply stepd_spec; auto..|apply Hc; exact Hgc].
Qed.

Lemma eqk_stable_lang a j : aut_wf a ->
  (forall s t, s < num_states a -> t < num_states a -> eqk a j s t -> eqk a (S j) s t) ->
  forall s t, s < num_states a -> t < num_states a -> (eqk a j s t <-> lang_equiv_states a s a t).
Proof.
  intros Hwf Hst s t Hs Ht. split.
  - intros H w Hw. apply (eqk_stable a j Hwf Hst (length w) s t Hs Ht H); [exact Hw|lia].
  - intros H. apply lang_equiv_eqk. exact H.
Qed.

(* named copies of the local fixpoints of refine_once *)
Definition sg_f (a : automaton) (cls : list nat) (s : nat) :=
  fix sg (cs : list N) : option (list nat) :=
    match cs with
    | [] => Some []
    | c :: r => do n <- a_step a s c; do k <- nth_error cls n; do rest <- sg r; Some (k :: rest)
    end.
Definition go_f (a : automaton) (alpha : list N) (cls : list nat) :=
  fix go (ss : list nat) : option (list (nat * list nat)) :=
    match ss with
    | [] => Some []
    | s :: t => do succ <- sg_f a cls s alpha; do k <- nth_error cls s; do rest <- go t; Some ((k, succ) :: rest)
    end.
Lemma refine_once_unfold a alpha cls :
  refine_once a alpha cls = do sigs <- go_f a alpha cls (seq 0 (num_states a)); Some (assign_classes sigs []).
Proof. reflexivity. Qed.

Definition sigof (a : automaton) (alpha : list N) (cls : list nat) (s : nat) : nat * list nat :=
  (nth s cls 0, map (fun c => nth (stepd a s c) cls 0) alpha).

Lemma nth_error_nth_lt {A} (l : list A) i d : i < length l -> nth_error l i = Some (nth i l d).
Proof. intros H. apply nth_error_nth'. exact H. Qed.

Lemma sg_f_spec a cls s : aut_wf a -> length cls = num_states a -> s < num_states a ->
  forall alpha, Forall good alpha -> sg_f a cls s alpha = Some (map (fun c => nth (stepd a s c) cls 0) alpha).
Proof.
  intros Hwf Hl Hs. induction alpha as [|c r IH]; intros Hg; [reflexivity|].
  inversion Hg as [|c' r' Hc Hr]; subst. cbn [sg_f map]. fold (sg_f a cls s).
  destruct (stepd_spec a s c Hwf Hs Hc) as [He Hlt]. rewrite He. cbn [bind].
  rewrite (nth_error_nth_lt cls _ 0) by lia. cbn [bind]. rewrite (IH Hr). reflexivity.
Qed.

Lemma go_f_spec a alpha cls : aut_wf a -> length cls = num_states a -> Forall good alpha ->
  forall ss, (forall s, In s ss -> s < num_states a) -> go_f a alpha cls ss = Some (map (sigof a alpha cls) ss).
Proof.
  intros Hwf Hl Hg. induction ss as [|s t IH]; intros Hss; [reflexivity|].
  cbn [go_f map]. fold (go_f a alpha cls).
  assert (Hs : s < num_states a) by (apply Hss; left; reflexivity).
  rewrite (sg_f_spec a cls s Hwf Hl Hs alpha Hg). cbn [bind].
  rewrite (nth_error_nth_lt cls s 0) by lia. cbn [bind]. rewrite IH; [reflexivity|].
  intros x Hx. apply Hss. right. exact Hx.
Qed.

Lemma refine_once_eq a alpha cls : aut_wf a -> length cls = num_states a -> Forall good alpha ->
  refine_once a alpha cls = Some (assign_classes (map (sigof a alpha cls) (seq 0 (num_states a))) []).
Proof.
  intros Hwf Hl Hg. rewrite refine_once_unfold, (go_f_spec a alpha cls Hwf Hl Hg); [reflexivity|].
  intros s Hs. apply in_seq in Hs. lia.
Qed.

Lemma nth_map_seq {A} (f : nat -> A) n i d : i < n -> nth i (map f (seq 0 n)) d = f i.
Proof.
  intros Hi. rewrite (nth_indep _ d (f 0)) by (rewrite map_length, seq_length; exact Hi).
  rewrite map_nth, seq_nth by exact Hi. reflexivity.
Qed.

(* one round of refinement turns (equality up to length j) into (equality up to length j+1) *)
Lemma refine_once_spec a alpha cls k j : aut_wf a -> alpha_ok a alpha ->
  cv (num_states a) cls k -> realizes (num_states a) cls (eqk a j) ->
  exists cls' k', refine_once a alpha cls = Some cls' /\ cv (num_states a) cls' k' /\
    realizes (num_states a) cls' (eqk a (S j)).
Proof.
  intros Hwf [Hg Hal] Hcv Hre. pose proof Hcv as [Hl _].
  rewrite (refine_once_eq a alpha cls Hwf Hl Hg).
  set (sigs := map (sigof a alpha cls) (seq 0 (num_states a))).
  destruct (assign_cv (0, []) sigs) as [k' [Hcv' Hiff]].
  assert (Hls : length sigs = num_states a) by (unfold sigs; rewrite map_length, seq_length; reflexivity).
  rewrite Hls in Hcv', Hiff. exists (assign_classes sigs []), k'. split; [reflexivity|]. split; [exact Hcv'|].
  intros s t Hs Ht. rewrite (Hiff s t Hs Ht). unfold sigs. rewrite !nth_map_seq by assumption.
  rewrite (eqk_S a j s t Hwf Hs Ht). unfold sigof. split.
  - intros He. injection He as H1 H2. apply (Hre s t Hs Ht) in H1. split.
    + destruct j as [|j]; [apply eqk_0; exact H1|]. apply (eqk_S a j s t Hwf Hs Ht) in H1. apply H1.
    + intros c Hc. destruct (Hal c Hc) as [r [Hr [Hra _]]].
      unfold stepd. rewrite (Hra s Hs), (Hra t Ht). fold (stepd a s r). fold (stepd a t r).
      assert (Hgr : good r) by (rewrite Forall_forall in Hg; auto).
      apply Hre; [apply stepd_spec; auto..|].
      rewrite map_ext_in_iff in H2. apply (H2 r Hr).
  - intros [Hf Hc]. f_equal.
    + apply Hre; auto. destruct j as [|j]; [apply eqk_0; exact Hf|].
      apply eqk_mono. apply (eqk_S a (S j) s t Hwf Hs Ht). split; [exact Hf|exact Hc].
    + apply map_ext_in. intros c Hin. assert (Hgc : good c) by (rewrite Forall_forall in Hg; auto).
      apply Hre; [apply stepd_spec; auto..|]. apply Hc. exact Hgc.
Qed.

Lemma realizes_refines a cls cls' j : realizes (num_states a) cls (eqk a j) ->
  realizes (num_states a) cls' (eqk a (S j)) -> refines_cv (num_states a) cls' cls.
Proof.
  intros H H' s t Hs Ht He. apply H; auto. apply eqk_mono. apply H'; auto.
Qed.

Lemma moore_go_spec a alpha : aut_wf a -> alpha_ok a alpha -> 0 < num_states a ->
  forall fuel j cls k, cv (num_states a) cls k -> realizes (num_states a) cls (eqk a j) ->
  fuel + k >= num_states a + 2 ->
  exists cls' k', moore_go fuel a alpha cls = Some cls' /\ cv (num_states a) cls' k' /\
    realizes (num_states a) cls' (fun s t => lang_equiv_states a s a t).
Proof.
  intros Hwf Hal Hn. induction fuel as [|f IH]; intros j cls k Hcv Hre Hm.
  - exfalso. destruct Hcv as [_ [Hk _]]. lia.
  - cbn [moore_go]. destruct (refine_once_spec a alpha cls k j Hwf Hal Hcv Hre) as [cls1 [k1 [Hr [Hcv1 Hre1]]]].
    rewrite Hr. cbn [bind]. rewrite (cv_num_classes _ _ _ Hn Hcv), (cv_num_classes _ _ _ Hn Hcv1).
    pose proof (realizes_refines a cls cls1 j Hre Hre1) as Href.
    destruct (refine_count _ _ _ _ _ Hcv Hcv1 Href) as [Hle Hsame].
    destruct (Nat.eqb k1 k) eqn:Hk.
    + apply Nat.eqb_eq in Hk. exists cls1, k1. split; [reflexivity|]. split; [exact Hcv1|].
      assert (Hst : forall s t, s < num_states a -> t < num_states a -> eqk a j s t -> eqk a (S j) s t).
      { intros s t Hs Ht H. apply Hre1; auto. apply Hsame; auto. apply Hre; auto. }
      intros s t Hs Ht. rewrite (Hre1 s t Hs Ht). rewrite <- (eqk_stable_lang a j Hwf Hst s t Hs Ht). split.
      * apply eqk_mono.
      * apply Hst; auto.
    + apply Nat.eqb_neq in Hk. apply (IH (S j) cls1 k1 Hcv1 Hre1). lia.
Qed.

(* nerode_classes never fails on a well-formed automaton and two states get the same class number exactly
   when they have the same residual language *)
Theorem nerode_classes_cv a : merge_facts -> aut_wf a ->
  exists cls k, nerode_classes a = Some cls /\ cv (num_states a) cls k /\
    realizes (num_states a) cls (fun s t => lang_equiv_states a s a t).
Proof.
  intros Hm Hwf. unfold nerode_classes. destruct (num_states a) as [|n] eqn:Hn.
  - exists [], 0. split; [reflexivity|]. split.
    + split; [reflexivity|]. split; [lia|]. split; intros s Hs; lia.
    + intros s t Hs; lia.
  - rewrite <- Hn.
    set (sigs := map (fun s => ((if a_is_final a s then 1 else 0), @nil nat)) (seq 0 (num_states a))).
    destruct (assign_cv (0, []) sigs) as [k [Hcv Hiff]].
    assert (Hls : length sigs = num_states a) by (unfold sigs; rewrite map_length, seq_length; reflexivity).
    rewrite Hls in Hcv, Hiff.
    apply (moore_go_spec a _ Hwf (pick_alphabet_ok a Hm Hwf)) with (j := 0) (k := k); [lia|exact Hcv| |].
    + intros s t Hs Ht. rewrite (Hiff s t Hs Ht). unfold sigs. rewrite !nth_map_seq by assumption.
      rewrite eqk_0. split.
      * intros H. injection H as H. destruct (a_is_final a s), (a_is_final a t); congruence.
      * intros ->. reflexivity.
    + destruct Hcv as [_ [_ [Hlt _]]]. assert (0 < num_states a) by lia. specialize (Hlt 0 H). lia.
Qed.

Theorem nerode_classes_spec a : merge_facts -> aut_wf a ->
  exists cls, nerode_classes a = Some cls /\ length cls = num_states a /\
    forall s t, s < num_states a -> t < num_states a ->
      (nth s cls 0 = nth t cls 0 <-> lang_equiv_states a s a t).
Proof.
  intros Hm Hwf. destruct (nerode_classes_cv a Hm Hwf) as [cls [k [H1 [H2 H3]]]].
  exists cls. split; [exact H1|]. split; [apply H2|exact H3].
Qed.

(* ------------------------------------------------------------------ 9. collapsed, nerode_index *)
Lemma nodup_nat_iff l : nodup_nat l = true <-> NoDup l.
Proof.
  induction l as [|x t IH].
  - split; [constructor|reflexivity].
  - change (nodup_nat (x :: t)) with (negb (existsb (Nat.eqb x) t) && nodup_nat t).
    rewrite andb_true_iff, negb_true_iff, IH. split.
    + intros [Hx Ht]. constructor; [|exact Ht]. intros Hin.
      assert (existsb (Nat.eqb x) t = true) by (apply existsb_exists; exists x; split; [exact Hin|apply Nat.eqb_refl]).
      congruence.
    + intros H. inversion H as [|x' t' Hx Ht]; subst. split; [|exact Ht].
      destruct (existsb (Nat.eqb x) t) eqn:He; [|reflexivity]. exfalso. apply Hx.
      apply existsb_exists in He. destruct He as [y [Hy He]]. apply Nat.eqb_eq in He. subst. exact Hy.
Qed.

(* no two distinct states have the same residual language *)
Definition no_equiv_states (a : automaton) : Prop :=
  forall s t, s < num_states a -> t < num_states a -> lang_equiv_states a s a t -> s = t.

Theorem collapsed_spec a : merge_facts -> aut_wf a ->
  collapsed a <> None /\ (collapsed a = Some true <-> no_equiv_states a).
Proof.
  intros Hm Hwf. destruct (nerode_classes_spec a Hm Hwf) as [cls [Hc [Hl Hiff]]].
  unfold collapsed. rewrite Hc. cbn [bind]. split; [discriminate|]. split.
  - intros H. injection H as H. apply nodup_nat_iff in H. intros s t Hs Ht He.
    apply (proj1 (NoDup_nth cls 0) H); [lia..|]. apply Hiff; auto.
  - intros H. f_equal. apply nodup_nat_iff. apply (NoDup_nth cls 0). intros s t Hs Ht He.
    rewrite Hl in Hs, Ht. apply H; auto. apply Hiff; auto.
Qed.

(* the Nerode index is the size of a system of distinct representatives of the residual languages of
   the states: reps lists one state per residual language *)
Definition residual_reps (a : automaton) (reps : list nat) : Prop :=
  NoDup reps /\ (forall r, In r reps -> r < num_states a) /\
  (forall r r', In r reps -> In r' reps -> lang_equiv_states a r a r' -> r = r') /\
  (forall s, s < num_states a -> exists r, In r reps /\ lang_equiv_states a s a r).

Theorem nerode_index_spec a : merge_facts -> aut_wf a ->
  exists k reps, nerode_index a = Some k /\ length reps = k /\ residual_reps a reps.
Proof.
  intros Hm Hwf. destruct (nerode_classes_cv a Hm Hwf) as [cls [k [Hc [Hcv Hre]]]].
  destruct (cv_reps _ _ _ Hcv) as [reps [Hlen Hrep]].
  exists k, reps. split; [|split; [exact Hlen|]].
  - unfold nerode_index. rewrite Hc. cbn [bind]. destruct (num_states a) as [|n] eqn:Hn.
    + destruct Hcv as [Hl [Hk _]]. destruct cls; [|discriminate]. f_equal. lia.
    + assert (H0 : 0 < S n) by lia. rewrite (cv_num_classes _ _ _ H0 Hcv).
      destruct cls; [destruct Hcv as [Hl _]; discriminate|reflexivity].
  - assert (Hin : forall r, In r reps -> exists v, v < k /\ r = nth v reps 0).
    { intros r Hr. destruct (In_nth _ _ 0 Hr) as [v [Hv He]]. exists v. split; [lia|auto]. }
    split; [|split; [|split]].
    + apply (NoDup_nth reps 0). intros i j Hi Hj He. rewrite Hlen in Hi, Hj.
      destruct (Hrep i Hi) as [_ H1]. destruct (Hrep j Hj) as [_ H2]. congruence.
    + intros r Hr. destruct (Hin r Hr) as [v [Hv ->]]. apply Hrep. exact Hv.
    + intros r r' Hr Hr' He. destruct (Hin r Hr) as [v [Hv ->]]. destruct (Hin r' Hr') as [v' [Hv' ->]].
      destruct (Hrep v Hv) as [H1 H2]. destruct (Hrep v' Hv') as [H1' H2'].
      apply Hre in He; auto. congruence.
    + intros s Hs. destruct Hcv as [_ [_ [Hlt _]]]. specialize (Hlt s Hs).
      destruct (Hrep _ Hlt) as [H1 H2]. exists (nth (nth s cls 0) reps 0). split.
      * apply nth_In. lia.
      * apply Hre; auto.
Qed.

(* ------------------------------------------------------------------ 10. Myhill-Nerode minimality *)
Definition reachable_state (a : automaton) (s : nat) : Prop :=
  exists w, goodw w /\ run a (initial a) w = Some s.
Definition all_reachable (a : automaton) : Prop := forall s, s < num_states a -> reachable_state a s.

(* a collapsed automaton all of whose states are reachable has at most as many states as any complete
   DFA of the same language *)
Theorem collapsed_connected_minimal_sem a b : aut_wf a -> aut_wf b ->
  no_equiv_states a -> all_reachable a -> same_language a b -> num_states a <= num_states b.
Proof.
  intros Ha Hb Hcol Hreach Hlang. apply same_language_iff in Hlang.
  destruct (finite_choice (@nil N) (fun s w => goodw w /\ run a (initial a) w = Some s) (num_states a) Hreach)
    as [ws [Hlen Hws]].
  set (f := fun s => match run b (initial b) (nth s ws []) with Some q => q | None => 0 end).
  assert (Hf : forall s, s < num_states a -> run b (initial b) (nth s ws []) = Some (f s) /\ f s < num_states b).
  { intros s Hs. destruct (Hws s Hs) as [Hg _]. unfold f.
    destruct (run_total b _ Hb Hg (initial b) (aut_wf_initial b Hb)) as [q [-> Hq]]. split; [reflexivity|exact Hq]. }
  set (L := map f (seq 0 (num_states a))).
  assert (HL : length L = num_states a) by (unfold L; rewrite map_length, seq_length; reflexivity).
  rewrite <- HL. apply nodup_bounded_length.
  - apply (NoDup_nth L 0). intros i j Hi Hj He. rewrite HL in Hi, Hj. unfold L in He.
    rewrite !nth_map_seq in He by assumption. apply Hcol; auto.
    destruct (Hws i Hi) as [Hgi Hri]. destruct (Hws j Hj) as [Hgj Hrj].
    destruct (Hf i Hi) as [Hbi _]. destruct (Hf j Hj) as [Hbj _].
    apply (lang_equiv_trans a i b (f i) a j).
    + apply (lang_equiv_run a (initial a) b (initial b) (nth i ws [])); auto.
    + rewrite He. apply lang_equiv_sym. apply (lang_equiv_run a (initial a) b (initial b) (nth j ws [])); auto.
  - intros x Hx. unfold L in Hx. apply in_map_iff in Hx. destruct Hx as [s [<- Hs]]. apply in_seq in Hs.
    apply Hf. lia.
Qed.

Theorem collapsed_connected_minimal a b : merge_facts -> aut_wf a -> aut_wf b ->
  collapsed a = Some true -> all_reachable a -> dfa_equiv a b = Some true -> num_states a <= num_states b.
Proof.
  intros Hm Ha Hb Hc Hr He. apply collapsed_connected_minimal_sem; auto.
  - apply (collapsed_spec a Hm Ha). exact Hc.
  - apply (dfa_equiv_spec a b Hm Ha Hb). exact He.
Qed.

(* ------------------------------------------------------------------ 11. what the per-run validation means *)
Theorem C04_oracle_meaning A B : merge_facts -> aut_wf A -> aut_wf B ->
  dfa_equiv A B = Some true -> collapsed B = Some true ->
  same_language A B /\ no_equiv_states B /\
  (all_reachable B -> forall C, aut_wf C -> same_language A C -> num_states B <= num_states C).
Proof.
  intros Hm HA HB He Hc.
  assert (Hl : same_language A B) by (apply (dfa_equiv_spec A B Hm HA HB); exact He).
  assert (Hn : no_equiv_states B) by (apply (collapsed_spec B Hm HB); exact Hc).
  split; [exact Hl|]. split; [exact Hn|]. intros Hr C HC HAC.
  apply collapsed_connected_minimal_sem; auto.
  intros w Hw. rewrite <- (Hl w Hw). apply HAC. exact Hw.
Qed.

(* ------------------------------------------------------------------ 12. the index, consistency, quotients *)
(* pigeonhole in relational form *)
Lemma inj_count (P : nat -> nat -> Prop) n m :
  (forall i, i < n -> exists j, j < m /\ P i j) ->
  (forall i i' j, i < n -> i' < n -> P i j -> P i' j -> i = i') -> n <= m.
Proof.
  intros Hex Hinj.
  destruct (finite_choice 0 (fun i j => j < m /\ P i j) n Hex) as [l [Hlen Hl]].
  rewrite <- Hlen. apply nodup_bounded_length.
  - apply (NoDup_nth l 0). intros i i' Hi Hi' He. rewrite Hlen in Hi, Hi'.
    destruct (Hl i Hi) as [_ H1]. destruct (Hl i' Hi') as [_ H2]. rewrite He in H1. eapply Hinj; eauto.
  - intros x Hx. destruct (In_nth _ _ 0 Hx) as [i [Hi <-]]. rewrite Hlen in Hi. apply Hl. exact Hi.
Qed.

(* a reachable state of a corresponds to a state of b with the same residual language *)
Lemma reachable_counterpart a b s : aut_wf a -> aut_wf b -> same_language a b -> s < num_states a ->
  reachable_state a s -> exists t, t < num_states b /\ lang_equiv_states a s b t.
Proof.
  intros Ha Hb Hl Hs [w [Hw Hr]]. apply same_language_iff in Hl.
  destruct (run_total b w Hb Hw (initial b) (aut_wf_initial b Hb)) as [t [Ht Hlt]].
  exists t. split; [exact Hlt|]. apply (lang_equiv_run a (initial a) b (initial b) w); auto.
Qed.

Lemma same_language_sym a b : same_language a b -> same_language b a.
Proof. intros H w Hw. symmetry. apply H. exact Hw. Qed.

(* with all states of A and of B reachable, a collapsed B equivalent to A has exactly
   nerode_index A states: the Myhill-Nerode index of the common language *)
Theorem collapsed_connected_index A B : merge_facts -> aut_wf A -> aut_wf B ->
  same_language A B -> no_equiv_states B -> all_reachable A -> all_reachable B ->
  nerode_index A = Some (num_states B).
Proof.
  intros Hm HA HB Hl Hcol HrA HrB.
  destruct (nerode_index_spec A Hm HA) as [k [reps [Hidx [Hlen [Hnd [Hrng [Hdist Hcov]]]]]]].
  rewrite Hidx. f_equal.
  set (P := fun i t => lang_equiv_states A (nth i reps 0) B t).
  assert (H1 : k <= num_states B).
  { apply (inj_count P).
    - intros i Hi. assert (Hin : In (nth i reps 0) reps) by (apply nth_In; lia).
      apply (reachable_counterpart A B); auto.
    - intros i i' t Hi Hi' Hp Hp'. apply (proj1 (NoDup_nth reps 0) Hnd); [lia..|].
      apply Hdist; [apply nth_In; lia..|].
      apply (lang_equiv_trans _ _ B t); [exact Hp|apply lang_equiv_sym; exact Hp']. }
  assert (H2 : num_states B <= k).
  { apply (inj_count (fun t i => P i t)).
    - intros t Ht. destruct (reachable_counterpart B A t HB HA (same_language_sym _ _ Hl) Ht (HrB t Ht)) as [s [Hs He]].
      destruct (Hcov s Hs) as [r [Hr Her]]. destruct (In_nth _ _ 0 Hr) as [i [Hi Hv]].
      exists i. split; [lia|]. unfold P. rewrite Hv.
      apply (lang_equiv_trans _ _ A s); apply lang_equiv_sym; assumption.
    - intros t t' i Ht Ht' Hp Hp'. apply Hcol; auto.
      apply (lang_equiv_trans _ _ A (nth i reps 0)); [apply lang_equiv_sym; exact Hp|exact Hp']. }
  lia.
Qed.

(* initial state, finality flags and final-state count of a well-formed result are consistent *)
Theorem wf_flags_consistent A B : aut_wf B -> same_language A B ->
  initial B < num_states B /\
  num_final B = length (filter (fun s => a_is_final B s) (seq 0 (num_states B))) /\
  a_is_final A (initial A) = a_is_final B (initial B).
Proof.
  intros HB Hl. split; [apply aut_wf_initial; exact HB|]. split.
  - destruct HB as [Hlen [_ [Hf _]]]. rewrite <- Hf, <- Hlen. unfold a_is_final, a_state.
    generalize (astates B). intros l.
    assert (H : forall (l0 : list astate), length (filter a_final l) =
              length (filter (fun s => a_final (nth s (l0 ++ l) dstate)) (seq (length l0) (length l)))).
    { clear. induction l as [|x l IH]; intros l0; [reflexivity|].
      cbn [length seq filter]. rewrite app_nth2 by lia. rewrite Nat.sub_diag. cbn [nth].
      specialize (IH (l0 ++ [x])). rewrite app_length in IH. cbn [length] in IH.
      rewrite Nat.add_1_r, <- app_assoc in IH. cbn [app] in IH.
      destruct (a_final x); cbn [length]; rewrite IH; reflexivity. }
    apply (H []).
  - specialize (Hl [] (Forall_nil _)). rewrite !accepts_acc, !acc_nil in Hl. injection Hl. auto.
Qed.

(* homomorphic images accept the same language: what from_partition + remap_nodes build when the
   partition respects finality and is stable *)
Theorem quotient_lang A Q (h : nat -> nat) : aut_wf A ->
  (forall s, s < num_states A -> a_is_final Q (h s) = a_is_final A s) ->
  (forall s c s', s < num_states A -> good c -> a_step A s c = Some s' -> a_step Q (h s) c = Some (h s')) ->
  forall s, s < num_states A -> lang_equiv_states A s Q (h s).
Proof.
  intros HA Hfin Hstep s Hs w Hw. revert s Hs. induction Hw as [|c w Hc _ IH]; intros s Hs.
  - rewrite !acc_nil, Hfin by exact Hs. reflexivity.
  - rewrite !acc_cons. destruct (step_total A s c HA Hs Hc) as [s' [Hs' Hlt]].
    rewrite Hs', (Hstep s c s' Hs Hc Hs'). apply IH. exact Hlt.
Qed.

Corollary quotient_same_language A Q h : aut_wf A ->
  (forall s, s < num_states A -> a_is_final Q (h s) = a_is_final A s) ->
  (forall s c s', s < num_states A -> good c -> a_step A s c = Some s' -> a_step Q (h s) c = Some (h s')) ->
  h (initial A) = initial Q -> same_language A Q.
Proof.
  intros HA Hf Hs Hi. apply same_language_iff. rewrite <- Hi.
  apply quotient_lang; auto. apply aut_wf_initial. exact HA.
Qed.

(* a quotient that merges all Nerode-equivalent states (and only uses blocks that occur) is collapsed *)
Theorem stable_coarse_is_nerode A Q h : aut_wf A ->
  (forall s, s < num_states A -> a_is_final Q (h s) = a_is_final A s) ->
  (forall s c s', s < num_states A -> good c -> a_step A s c = Some s' -> a_step Q (h s) c = Some (h s')) ->
  (forall q, q < num_states Q -> exists s, s < num_states A /\ h s = q) ->
  (forall s t, s < num_states A -> t < num_states A -> lang_equiv_states A s A t -> h s = h t) ->
  no_equiv_states Q.
Proof.
  intros HA Hf Hst Hsur Hco q q' Hq Hq' He.
  destruct (Hsur q Hq) as [s [Hs <-]]. destruct (Hsur q' Hq') as [t [Ht <-]].
  apply Hco; auto.
  apply (lang_equiv_trans _ _ Q (h s)); [apply quotient_lang; auto|].
  apply (lang_equiv_trans _ _ Q (h t)); [exact He|apply lang_equiv_sym; apply quotient_lang; auto].
Qed.

(* when all states of A are reachable, nerode_index A is a lower bound for the number of states of
   every complete DFA of the language: it is the Myhill-Nerode index *)
Theorem nerode_index_lower_bound A C k : merge_facts -> aut_wf A -> aut_wf C ->
  all_reachable A -> same_language A C -> nerode_index A = Some k -> k <= num_states C.
Proof.
  intros Hm HA HC Hr Hl Hk.
  destruct (nerode_index_spec A Hm HA) as [k' [reps [Hidx [Hlen [Hnd [Hrng [Hdist Hcov]]]]]]].
  assert (k' = k) by congruence. subst k'.
  apply (inj_count (fun i t => lang_equiv_states A (nth i reps 0) C t)).
  - intros i Hi. assert (Hin : In (nth i reps 0) reps) by (apply nth_In; lia).
    apply (reachable_counterpart A C); auto.
  - intros i i' t Hi Hi' Hp Hp'. apply (proj1 (NoDup_nth reps 0) Hnd); [lia..|].
    apply Hdist; [apply nth_In; lia..|].
    apply (lang_equiv_trans _ _ C t); [exact Hp|apply lang_equiv_sym; exact Hp'].
Qed.

(* the four verdicts of the per-run validation of minimize's output B against its input A *)
Theorem C04_validation_meaning A B : merge_facts -> aut_wf A -> aut_wfb B = true ->
  dfa_equiv A B = Some true -> collapsed B = Some true -> nerode_index A = Some (num_states B) ->
  same_language A B /\ no_equiv_states B /\
  (exists reps, length reps = num_states B /\ residual_reps A reps) /\
  (all_reachable A -> forall C, aut_wf C -> same_language A C -> num_states B <= num_states C) /\
  (all_reachable B -> forall C, aut_wf C -> same_language A C -> num_states B <= num_states C) /\
  initial B < num_states B /\
  num_final B = length (filter (fun s => a_is_final B s) (seq 0 (num_states B))) /\
  a_is_final A (initial A) = a_is_final B (initial B).
Proof.
  intros Hm HA HBb He Hc Hi. assert (HB : aut_wf B) by (apply aut_wfb_iff; exact HBb).
  destruct (C04_oracle_meaning A B Hm HA HB He Hc) as [Hl [Hn Hmin]].
  split; [exact Hl|]. split; [exact Hn|]. split.
  { destruct (nerode_index_spec A Hm HA) as [k [reps [Hidx [Hlen Hreps]]]].
    exists reps. split; [congruence|exact Hreps]. }
  split.
  { intros Hr C HC HAC. apply (nerode_index_lower_bound A C _ Hm HA HC Hr HAC Hi). }
  split; [exact Hmin|]. apply wf_flags_consistent; assumption.
Qed.

(* ------------------------------------------------------------------ 13. a small automaton for the examples *)
(* names 0..5; 1 ~ 2 (both go to the final state on a..c, to a sink otherwise), 3 ~ 4 (a cycle of
   equivalent sinks), 5 final *)
Definition ex_builder : builder :=
  let b := b_new 0 in
  let b := b_add_transition b 0 (97, 97)%N 1 in
  let b := b_add_transition b 0 (98, 98)%N 2 in
  let b := b_set_default b 0 3 in
  let b := b_add_transition b 1 (97, 99)%N 5 in
  let b := b_set_default b 1 3 in
  let b := b_add_transition b 2 (97, 98)%N 5 in
  let b := b_add_transition b 2 (99, 99)%N 5 in
  let b := b_set_default b 2 4 in
  let b := b_set_default b 3 4 in
  let b := b_set_default b 4 3 in
  let b := b_set_default b 5 3 in
  b_mark_final b 5.

(* ------------------------------------------------------------------ 14. the reachable oracle *)
(* [reachable] follows the default edge of a state even when its complementary class is empty (such a
   default is never taken).  On automata without such dead defaults it computes exactly the states
   reached from the initial state by good words. *)
Definition strict_defaults (a : automaton) : Prop :=
  forall s, s < num_states a -> a_default (a_state a s) <> None ->
    pempty_complement (a_classes (a_state a s)) = false.
Definition strict_defaultsb (a : automaton) : bool :=
  forallb (fun s => match a_default s with Some _ => negb (pempty_complement (a_classes s)) | None => true end)
          (astates a).

Lemma strict_defaultsb_iff a : length (astates a) = num_states a ->
  (strict_defaultsb a = true <-> strict_defaults a).
Proof.
  intros Hl. unfold strict_defaultsb, strict_defaults. rewrite forallb_forall. split.
  - intros H s Hs Hd. specialize (H (a_state a s) (a_state_in a s Hl Hs)).
    destruct (a_default (a_state a s)); [|congruence]. apply negb_true_iff in H. exact H.
  - intros H st Hin. destruct (In_nth _ _ dstate Hin) as [i [Hi <-]]. rewrite Hl in Hi. specialize (H i Hi).
    fold (a_state a i). destruct (a_default (a_state a i)); [|reflexivity].
    apply negb_true_iff. apply H. discriminate.
Qed.

Lemma step_in_edges a s c t : a_step a s c = Some t -> In t (edges (a_state a s)).
Proof.
  unfold a_step, a_next, edges. destruct (pclass_of_char (a_classes (a_state a s)) c) as [[i|]|]; [| |discriminate].
  - intros H. apply in_or_app. left. eapply nth_error_In; eauto.
  - intros H. apply in_or_app. right. rewrite H. left. reflexivity.
Qed.

Lemma edges_step a s t : aut_wf a -> strict_defaults a -> s < num_states a ->
  In t (edges (a_state a s)) -> exists c, good c /\ a_step a s c = Some t.
Proof.
  intros Hwf Hstrict Hs Hin. destruct (aut_wf_state a s Hwf Hs) as [_ [Hp [Hlen _]]].
  pose proof (pwf_sorted _ Hp) as Hsorted. unfold edges in Hin. apply in_app_or in Hin. destruct Hin as [Hin | Hin].
  - destruct (In_nth_error _ _ Hin) as [i Hi]. pose proof (nth_error_lt_len _ _ _ Hi) as Hlt. rewrite Hlen in Hlt.
    destruct (nth_error_in_range _ _ Hlt) as [iv Hiv].
    destruct (sorted_nth_valid _ _ _ Hsorted Hiv) as [Hv1 Hv2].
    assert (Hc : in_class (a_classes (a_state a s)) (fst iv) (CInt i)).
    { exists iv. split; [exact Hiv|]. unfold mem. split; [apply N.le_refl|exact Hv1]. }
    exists (fst iv). split; [unfold good; eapply N.le_trans; eauto|].
    unfold a_step, a_next. rewrite (pclass_of_char_complete _ _ _ Hsorted Hc). exact Hi.
  - destruct (a_default (a_state a s)) as [d|] eqn:Hd; [|destruct Hin]. destruct Hin as [<- | []].
    assert (He : pempty_complement (a_classes (a_state a s)) = false) by (apply Hstrict; [exact Hs|congruence]).
    destruct (ppick_complement_spec _ Hp) as [_ H]. destruct (H He) as [Hc _].
    exists (ppick_complement (a_classes (a_state a s))). split; [apply Hc|].
    unfold a_step, a_next. rewrite (pclass_of_char_complete _ _ _ Hsorted Hc). exact Hd.
Qed.

Definition visit (qs : list nat * list nat) (n : nat) : list nat * list nat :=
  if existsb (Nat.eqb n) (snd qs) then qs else (fst qs ++ [n], n :: snd qs).

Lemma existsb_nat_in n l : existsb (Nat.eqb n) l = true <-> In n l.
Proof.
  rewrite existsb_exists. split.
  - intros [x [Hx He]]. apply Nat.eqb_eq in He. subst. exact Hx.
  - intros H. exists n. split; [exact H|apply Nat.eqb_refl].
Qed.

Lemma visit_fold : forall es q sn, exists new,
  fold_left visit es (q, sn) = (q ++ new, rev new ++ sn) /\ NoDup new /\
  (forall x, In x new -> ~ In x sn) /\ (forall x, In x new -> In x es) /\
  (forall x, In x es -> In x (rev new ++ sn)).
Proof.
  induction es as [|e es IH]; intros q sn.
  - exists []. cbn [fold_left rev app]. rewrite app_nil_r. split; [reflexivity|]. split; [constructor|].
    split; [intros x []|]. split; intros x [].
  - cbn [fold_left]. unfold visit at 2. cbn [fst snd]. destruct (existsb (Nat.eqb e) sn) eqn:He.
    + apply existsb_nat_in in He. destruct (IH q sn) as [new [Hf [Hnd [Hns [Hes Hall]]]]].
      exists new. split; [exact Hf|]. split; [exact Hnd|]. split; [exact Hns|]. split.
      * intros x Hx. right. apply Hes. exact Hx.
      * intros x [<- | Hx]; [apply in_or_app; right; exact He|apply Hall; exact Hx].
    + assert (Hnin : ~ In e sn) by (intros H; apply existsb_nat_in in H; congruence).
      destruct (IH (q ++ [e]) (e :: sn)) as [new [Hf [Hnd [Hns [Hes Hall]]]]].
      exists (e :: new). split; [rewrite Hf; cbn [rev]; rewrite <- !app_assoc; reflexivity|].
      split; [constructor; [intros H; apply (Hns _ H); left; reflexivity|exact Hnd]|].
      split; [intros x [<- | Hx]; [exact Hnin|intros H; apply (Hns x Hx); right; exact H]|].
      split; [intros x [<- | Hx]; [left; reflexivity|right; apply Hes; exact Hx]|].
      cbn [rev]. intros x [<- | Hx]; rewrite <- app_assoc.
      * apply in_or_app. right. left. reflexivity.
      * apply Hall. exact Hx.
Qed.

Lemma reach_go_unfold f a i q seen out :
  reach_go (S f) a (i :: q) seen out =
  let qs := fold_left visit (edges (a_state a i)) (q, seen) in reach_go f a (fst qs) (snd qs) (out ++ [i]).
Proof.
  cbn [reach_go]. change (fun qs n => if existsb (Nat.eqb n) (snd qs) then qs else (fst qs ++ [n], n :: snd qs)) with visit.
  destruct (fold_left visit (edges (a_state a i)) (q, seen)) as [q1 s1]. reflexivity.
Qed.

Definition rinv (a : automaton) (queue seen out : list nat) : Prop :=
  NoDup (out ++ queue) /\ (forall x, In x seen <-> In x out \/ In x queue) /\
  (forall x, In x seen -> x < num_states a) /\
  (forall x t, In x out -> In t (edges (a_state a x)) -> In t seen) /\
  (forall x, In x seen -> reachable_state a x) /\ In (initial a) seen.

Lemma reach_go_spec a : aut_wf a -> strict_defaults a ->
  forall fuel queue seen out, rinv a queue seen out -> fuel + length out > num_states a ->
  forall s, In s (reach_go fuel a queue seen out) <-> s < num_states a /\ reachable_state a s.
Proof.
  intros Hwf Hstrict. induction fuel as [|f IH]; intros queue seen out Hinv Hm.
  - exfalso. destruct Hinv as [Hnd [Hiff [Hb _]]].
    assert (length (out ++ queue) <= num_states a).
    { apply nodup_bounded_length; [exact Hnd|]. intros x Hx. apply Hb. apply Hiff. apply in_app_or. exact Hx. }
    rewrite app_length in H. cbn [Nat.add] in Hm. lia.
  - destruct queue as [|i q].
    + cbn [reach_go]. destruct Hinv as [Hnd [Hiff [Hb [Hcl [Hre Hin0]]]]].
      assert (Hso : forall x, In x seen <-> In x out).
      { intros x. rewrite Hiff. split; [intros [H | []]; exact H|intros H; left; exact H]. }
      intros s. split.
      * intros Hs. apply Hso in Hs. split; [apply Hb; exact Hs|apply Hre; exact Hs].
      * intros [Hs [w [Hw Hr]]]. apply Hso in Hin0.
        assert (Hgen : forall w, goodw w -> forall x, In x out -> run a x w = Some s -> In s out).
        { clear w Hw Hr. intros w Hw. induction Hw as [|c w Hc _ IHw]; intros x Hx Hr.
          - rewrite run_nil in Hr. injection Hr as <-. exact Hx.
          - rewrite run_cons in Hr. destruct (a_step a x c) as [y|] eqn:Hy; [|discriminate].
            apply (IHw y); [|exact Hr]. apply Hso. eapply Hcl; [exact Hx|]. eapply step_in_edges; eauto. }
        apply (Hgen w Hw (initial a) Hin0 Hr).
    + rewrite reach_go_unfold. cbv zeta. destruct Hinv as [Hnd [Hiff [Hb [Hcl [Hre Hin0]]]]].
      destruct (visit_fold (edges (a_state a i)) q seen) as [new [Hf [Hndn [Hns [Hes Hall]]]]].
      rewrite Hf. cbn [fst snd].
      assert (Hi : In i seen) by (apply Hiff; right; left; reflexivity).
      assert (Hilt : i < num_states a) by (apply Hb; exact Hi).
      apply IH.
      * split; [|split; [|split; [|split; [|split]]]].
        -- replace ((out ++ [i]) ++ q ++ new) with ((out ++ i :: q) ++ new) by (rewrite <- !app_assoc; reflexivity).
           apply NoDup_app_intro; [exact Hnd|exact Hndn|].
           intros x Hx Hn. apply (Hns x Hn). apply Hiff. apply in_app_or. exact Hx.
        -- intros x. rewrite !in_app_iff, <- in_rev, Hiff. cbn [In]. tauto.
        -- intros x Hx. apply in_app_or in Hx. destruct Hx as [Hx | Hx]; [|apply Hb; exact Hx].
           apply in_rev in Hx. destruct (edges_step a i x Hwf Hstrict Hilt (Hes x Hx)) as [c [Hc Hst]].
           destruct (step_total a i c Hwf Hilt Hc) as [y [Hy Hlt]]. congruence.
        -- intros x t Hx Ht. apply in_app_or in Hx. destruct Hx as [Hx | [<- | []]].
           ++ apply in_or_app. right. eapply Hcl; eauto.
           ++ apply Hall. exact Ht.
        -- intros x Hx. apply in_app_or in Hx. destruct Hx as [Hx | Hx]; [|apply Hre; exact Hx].
           apply in_rev in Hx. destruct (edges_step a i x Hwf Hstrict Hilt (Hes x Hx)) as [c [Hc Hst]].
           destruct (Hre i Hi) as [w [Hw Hr]]. exists (w ++ [c]).
           split; [apply goodw_app; [exact Hw|constructor; [exact Hc|constructor]]|].
           rewrite run_app, Hr, run_cons, Hst. reflexivity.
        -- apply in_or_app. right. exact Hin0.
      * rewrite app_length. cbn [length]. lia.
Qed.

Lemma insert_nat_in x y l : In x (insert_nat y l) <-> x = y \/ In x l.
Proof.
  induction l as [|z l IH]; cbn [insert_nat].
  - cbn [In]. split; [intros [H | []]; left; auto|intros [H | []]; left; auto].
  - destruct (Nat.leb y z); cbn [In]; [split; intros [H | H]; auto|].
    rewrite IH. tauto.
Qed.
Lemma sort_nat_in x l : In x (sort_nat l) <-> In x l.
Proof.
  unfold sort_nat. induction l as [|y l IH]; cbn [fold_right]; [reflexivity|].
  rewrite insert_nat_in, IH. cbn [In]. split; intros [H | H]; auto.
Qed.

Theorem reachable_spec a s : aut_wf a -> strict_defaults a ->
  (In s (reachable a) <-> s < num_states a /\ reachable_state a s).
Proof.
  intros Hwf Hstrict. unfold reachable. rewrite sort_nat_in.
  apply (reach_go_spec a Hwf Hstrict); [|cbn [length]; lia].
  split; [|split; [|split; [|split; [|split]]]].
  - cbn [app]. constructor; [intros []|constructor].
  - intros x. cbn [In]. tauto.
  - intros x [<- | []]. apply aut_wf_initial. exact Hwf.
  - intros x t [].
  - intros x [<- | []]. exists []. split; [constructor|reflexivity].
  - left. reflexivity.
Qed.

(* the executable form of "all states are reachable" *)
Corollary reachable_all a : aut_wf a -> strict_defaults a ->
  ((forall s, s < num_states a -> In s (reachable a)) <-> all_reachable a).
Proof.
  intros Hwf Hstrict. split.
  - intros H s Hs. apply (reachable_spec a s Hwf Hstrict). apply H. exact Hs.
  - intros H s Hs. apply (reachable_spec a s Hwf Hstrict). split; [exact Hs|apply H; exact Hs].
Qed.

(* witness: with a dead default (state 0 covers every character and still declares default 2) the
   reachable oracle lists state 2, which no word reaches; aut_wfb accepts this automaton *)
Definition dead_default_aut : automaton :=
  {| num_states := 3; num_final := 1; initial := 0;
     astates :=
       [ {| a_id := 0; a_final := false; a_classes := {| ivs := [(0, MAXC)%N]; wit := (MAXC + 1)%N |};
            a_succ := [1]; a_default := Some 2 |};
         {| a_id := 1; a_final := false; a_classes := pnew; a_succ := []; a_default := Some 1 |};
         {| a_id := 2; a_final := true; a_classes := pnew; a_succ := []; a_default := Some 2 |} ] |}.

Lemma reachable_dead_default_witness :
  aut_wfb dead_default_aut = true /\ reachable dead_default_aut = [0; 1; 2] /\
  ~ reachable_state dead_default_aut 2 /\ ~ strict_defaults dead_default_aut.
Proof.
  split; [vm_compute; reflexivity|]. split; [vm_compute; reflexivity|].
  assert (H1 : forall c, a_step dead_default_aut 1 c = Some 1) by (intros c; reflexivity).
  assert (H0 : forall c, good c -> a_step dead_default_aut 0 c = Some 1).
  { intros c Hc. unfold a_step, a_next. cbn [dead_default_aut a_state astates nth a_classes a_succ a_default].
    rewrite (pclass_of_char_complete _ c (CInt 0)); [reflexivity| |].
    - cbn [ivs ivs_sorted]. split; [|split; exact I]. unfold cs_valid. cbn [fst snd]. unfold MAXC. lia.
    - exists (0, MAXC)%N. split; [reflexivity|]. unfold mem. cbn [fst snd]. unfold good in Hc. lia. }
  assert (Hl : forall w, run dead_default_aut 1 w = Some 1).
  { induction w as [|c w IH]; [reflexivity|]. rewrite run_cons, H1. exact IH. }
  split.
  - intros [w [Hw Hr]]. destruct Hw as [|c w Hc Hw].
    + rewrite run_nil in Hr. discriminate.
    + cbn [initial dead_default_aut] in Hr. rewrite run_cons, (H0 c Hc), Hl in Hr. discriminate.
  - intros H. specialize (H 0). cbn in H. assert (He : true = false); [|discriminate].
    apply H; [lia|discriminate].
Qed.

(* ------------------------------------------------------------------ 15. premise-free statements *)
Lemma merge_facts_hold : merge_facts.
Proof.
  split.
  - intros p1 p2 H1 H2. apply merge_wf; assumption.
  - intros p1 p2 x y H1 H2 _ _ H. apply (merge_refines p1 p2 x y H1 H2 H).
Qed.

Theorem c04_alphabet_same_successor a x y s : aut_wf a -> s < num_states a -> good x -> good y ->
  same_class (combined_partition a) x y -> a_step a s x = a_step a s y.
Proof. exact (combined_same_successor a x y s merge_facts_hold). Qed.

Theorem c04_pick_alphabet_ok a : aut_wf a -> alpha_ok a (pick_alphabet a).
Proof. exact (pick_alphabet_ok a merge_facts_hold). Qed.

(* exactly one representative: two picks of the same class are equal *)
Lemma Forall2_in_r_nth {A B} (R : A -> B -> Prop) l1 l2 y :
  Forall2 R l1 l2 -> In y l2 -> exists i x, nth_error l1 i = Some x /\ nth_error l2 i = Some y /\ R x y.
Proof.
  induction 1 as [|a b l1 l2 Hab _ IH]; intros Hin; [destruct Hin|].
  destruct Hin as [-> | Hin].
  - exists 0, a. split; [reflexivity|]. split; [reflexivity|exact Hab].
  - destruct (IH Hin) as [i [x [H1 [H2 H3]]]]. exists (S i), x. split; [exact H1|]. split; [exact H2|exact H3].
Qed.

Lemma picks_unique P r r' : pwf P -> In r (ppicks P) -> In r' (ppicks P) -> same_class P r r' -> r = r'.
Proof.
  intros Hp Hr Hr' Hs. pose proof (ppicks_in_class P Hp) as HF.
  destruct (Forall2_in_r_nth _ _ _ r HF Hr) as [i [k [Hi [Hri [Hg Hk]]]]].
  destruct (Forall2_in_r_nth _ _ _ r' HF Hr') as [j [k' [Hj [Hrj [Hg' Hk']]]]].
  apply (same_class_iff_in_class P r r' Hg Hg') in Hs. destruct Hs as [c [Hc Hc']].
  pose proof (pwf_sorted _ Hp) as Hsorted.
  assert (k = c) by (eapply in_class_fun; eauto). assert (k' = c) by (eapply in_class_fun; eauto). subst k k'.
  assert (i = j).
  { apply (proj1 (NoDup_nth_error (pclass_ids P)) (pclass_ids_nodup P)); [eapply nth_error_lt_len; eauto|congruence]. }
  subst j. congruence.
Qed.

Theorem c04_pick_alphabet_repr a : aut_wf a ->
  Forall good (pick_alphabet a) /\
  (forall c, good c -> exists r, In r (pick_alphabet a) /\ same_class (combined_partition a) c r /\
     forall s, s < num_states a -> a_step a s c = a_step a s r) /\
  (forall r r', In r (pick_alphabet a) -> In r' (pick_alphabet a) -> same_class (combined_partition a) r r' -> r = r').
Proof.
  intros Hwf. destruct (combined_refines a merge_facts_hold Hwf) as [Hp Hr].
  destruct (picks_cover _ Hp) as [Hg Hc]. unfold pick_alphabet. split; [exact Hg|]. split.
  - intros c Hgc. destruct (Hc c Hgc) as [r [Hin [Hgr Hs]]]. exists r. split; [exact Hin|]. split; [exact Hs|].
    intros s Hlt. apply same_class_step; auto.
  - intros r r'. apply picks_unique. exact Hp.
Qed.

Theorem c04_joint_alphabet_ok a b : aut_wf a -> aut_wf b -> alpha_ok2 a b (joint_alphabet a b).
Proof. exact (joint_alphabet_ok a b merge_facts_hold). Qed.

Theorem c04_dfa_equiv_from a b s t : aut_wf a -> aut_wf b -> s < num_states a -> t < num_states b ->
  dfa_equiv_from a b s t <> None /\ (dfa_equiv_from a b s t = Some true <-> lang_equiv_states a s b t).
Proof. exact (dfa_equiv_from_sound_complete a b s t merge_facts_hold). Qed.

Theorem c04_dfa_equiv_from_false a b s t : aut_wf a -> aut_wf b -> s < num_states a -> t < num_states b ->
  (dfa_equiv_from a b s t = Some false <-> ~ lang_equiv_states a s b t).
Proof. exact (dfa_equiv_from_false a b s t merge_facts_hold). Qed.

Theorem c04_dfa_equiv a b : aut_wf a -> aut_wf b ->
  dfa_equiv a b <> None /\ (dfa_equiv a b = Some true <-> same_language a b).
Proof. exact (dfa_equiv_spec a b merge_facts_hold). Qed.

Theorem c04_nerode_classes a : aut_wf a ->
  exists cls, nerode_classes a = Some cls /\ length cls = num_states a /\
    forall s t, s < num_states a -> t < num_states a ->
      (nth s cls 0 = nth t cls 0 <-> lang_equiv_states a s a t).
Proof. exact (nerode_classes_spec a merge_facts_hold). Qed.

Theorem c04_collapsed a : aut_wf a -> collapsed a <> None /\ (collapsed a = Some true <-> no_equiv_states a).
Proof. exact (collapsed_spec a merge_facts_hold). Qed.

Theorem c04_nerode_index a : aut_wf a ->
  exists k reps, nerode_index a = Some k /\ length reps = k /\ residual_reps a reps.
Proof. exact (nerode_index_spec a merge_facts_hold). Qed.

Theorem c04_minimal_when_connected a b : aut_wf a -> aut_wf b ->
  collapsed a = Some true -> all_reachable a -> dfa_equiv a b = Some true -> num_states a <= num_states b.
Proof. exact (collapsed_connected_minimal a b merge_facts_hold). Qed.

Theorem c04_index_lower_bound A C k : aut_wf A -> aut_wf C ->
  all_reachable A -> same_language A C -> nerode_index A = Some k -> k <= num_states C.
Proof. exact (nerode_index_lower_bound A C k merge_facts_hold). Qed.

Theorem c04_index_attained A B : aut_wf A -> aut_wf B ->
  same_language A B -> no_equiv_states B -> all_reachable A -> all_reachable B ->
  nerode_index A = Some (num_states B).
Proof. exact (collapsed_connected_index A B merge_facts_hold). Qed.

Theorem c04_oracle_meaning A B : aut_wf A -> aut_wf B ->
  dfa_equiv A B = Some true -> collapsed B = Some true ->
  same_language A B /\ no_equiv_states B /\
  (all_reachable B -> forall C, aut_wf C -> same_language A C -> num_states B <= num_states C).
Proof. exact (C04_oracle_meaning A B merge_facts_hold). Qed.

Theorem c04_validation_meaning A B : aut_wf A -> aut_wfb B = true ->
  dfa_equiv A B = Some true -> collapsed B = Some true -> nerode_index A = Some (num_states B) ->
  same_language A B /\ no_equiv_states B /\
  (exists reps, length reps = num_states B /\ residual_reps A reps) /\
  (all_reachable A -> forall C, aut_wf C -> same_language A C -> num_states B <= num_states C) /\
  (all_reachable B -> forall C, aut_wf C -> same_language A C -> num_states B <= num_states C) /\
  initial B < num_states B /\
  num_final B = length (filter (fun s => a_is_final B s) (seq 0 (num_states B))) /\
  a_is_final A (initial A) = a_is_final B (initial B).
Proof. exact (C04_validation_meaning A B merge_facts_hold). Qed.
