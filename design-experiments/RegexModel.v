(* Scratch experiment (design phase): executable model of the regex core of rust-smt-strings,
   mirroring the *repaired* code (D1 mk_loop, D2 interval_cover, D8 start_char).
   No proofs here; used to validate faithfulness against the real crate. *)
From Coq Require Import List Arith NArith Bool Lia.
Import ListNotations.
Open Scope N_scope.

Definition MAXC : N := 196607.
Definition U32MAX : N := 4294967295.

(* ---------- option monad ---------- *)
Definition bind {A B} (o : option A) (f : A -> option B) : option B :=
  match o with Some x => f x | None => None end.
Notation "'do' x <- a ; b" := (bind a (fun x => b)) (at level 200, x pattern, a at level 100, b at level 200).

(* ---------- char sets and partitions ---------- *)
Definition cs := (N * N)%type.
Definition cs_contains (s : cs) (x : N) := (fst s <=? x) && (x <=? snd s).
Definition cs_covers (s o : cs) := (fst s <=? fst o) && (snd o <=? snd s).
Definition cs_is_alphabet (s : cs) := (fst s =? 0) && (snd s =? MAXC).

Inductive classid := CInt (i : nat) | CComp.
Definition classid_eqb (a b : classid) :=
  match a, b with CInt i, CInt j => Nat.eqb i j | CComp, CComp => true | _, _ => false end.

Record part := { ivs : list cs; wit : N }.
Definition pnew : part := {| ivs := []; wit := 0 |}.
Definition ppush (p : part) (a b : N) : part :=
  {| ivs := ivs p ++ [(a,b)]; wit := if a <=? wit p then b + 1 else wit p |}.
Definition pfrom_set (c : cs) : part := {| ivs := [c]; wit := if 0 <? fst c then 0 else snd c + 1 |}.
Definition pget (p : part) (i : nat) : N * N := nth i (ivs p) (MAXC+1, MAXC+1).
Definition pstart p i := fst (pget p i).
Definition pend p i := snd (pget p i).
Definition pempty_complement (p : part) := MAXC <? wit p.
Definition pvalid (p : part) (c : classid) :=
  match c with CInt i => Nat.ltb i (length (ivs p)) | CComp => negb (pempty_complement p) end.
Definition ppick (p : part) (c : classid) : option N :=
  match c with
  | CInt i => option_map fst (nth_error (ivs p) i)
  | CComp => if pempty_complement p then None else Some (wit p)
  end.
Definition pclass_ids (p : part) : list classid :=
  map CInt (seq 0 (length (ivs p))) ++ (if pempty_complement p then [] else [CComp]).

(* binary search as in class_of_char *)
Fixpoint bs_char (fuel : nat) (l : list cs) (x : N) (i j : nat) : classid :=
  match fuel with
  | O => CComp
  | S f =>
    if Nat.ltb i j then
      let h := (i + (j - i) / 2)%nat in
      let s := nth h l (0,0) in
      if cs_contains s x then CInt h
      else if snd s <? x then bs_char f l x (S h) j else bs_char f l x i h
    else CComp
  end.
Definition pclass_of_char (p : part) (x : N) : classid :=
  bs_char (S (length (ivs p))) (ivs p) x 0 (length (ivs p)).

Inductive cover := CoveredBy (i : nat) | DisjointFromAll | Overlaps.
Fixpoint bs_cover (fuel : nat) (l : list cs) (x : N) (i j : nat) : nat :=
  match fuel with
  | O => i
  | S f =>
    if Nat.ltb (S i) j then
      let h := (i + (j - i) / 2)%nat in
      if fst (nth h l (0,0)) <=? x then bs_cover f l x h j else bs_cover f l x i h
    else i
  end.
Definition pinterval_cover (p : part) (s : cs) : cover :=
  let a := fst s in let b := snd s in
  let i := bs_cover (S (length (ivs p))) (ivs p) a 0 (length (ivs p)) in
  let '(ai, bi) := pget p i in
  if a <? ai then (if b <? ai then DisjointFromAll else Overlaps)
  else if a <=? bi then (if b <=? bi then CoveredBy i else Overlaps)
  else (if b <? pstart p (S i) then DisjointFromAll else Overlaps).   (* D2 repaired *)
Definition pclass_of_set (p : part) (s : cs) : option classid :=
  match pinterval_cover p s with CoveredBy i => Some (CInt i) | DisjointFromAll => Some CComp | Overlaps => None end.

Fixpoint merge_loop (fuel : nat) (p1 p2 : part) (i : nat) (a b : N) (j : nat) (c d : N) (res : part) : part :=
  match fuel with
  | O => res
  | S f =>
    if negb ((b <=? MAXC) || (d <=? MAXC)) then res else
    if b <? c then let '(x,y) := pget p1 i in merge_loop f p1 p2 (S i) x y j c d (ppush res a b)
    else if d <? a then let '(x,y) := pget p2 j in merge_loop f p1 p2 i a b (S j) x y (ppush res c d)
    else if c <? a then merge_loop f p1 p2 i a b j a d (ppush res c (a-1))
    else if a <? c then merge_loop f p1 p2 i c b j c d (ppush res a (c-1))
    else if b <? d then let '(x,y) := pget p1 i in merge_loop f p1 p2 (S i) x y j (b+1) d (ppush res a b)
    else if d <? b then let '(x,y) := pget p2 j in merge_loop f p1 p2 i (d+1) b (S j) x y (ppush res c d)
    else let '(x,y) := pget p1 i in let '(x',y') := pget p2 j in
         merge_loop f p1 p2 (S i) x y (S j) x' y' (ppush res a b)
  end.
Definition pmerge (p1 p2 : part) : part :=
  let '(a,b) := pget p1 0 in let '(c,d) := pget p2 0 in
  merge_loop (2 * (length (ivs p1) + length (ivs p2)) + 2) p1 p2 1 a b 1 c d pnew.

(* ---------- loop ranges ---------- *)
Inductive lr := LR (lo : N) (hi : option N).
Definition add32 (x y : N) : option N := if x + y <=? U32MAX then Some (x + y) else None.
Definition mul32 (x y : N) : option N := if x * y <=? U32MAX then Some (x * y) else None.
Definition lr_star := LR 0 None.
Definition lr_plus := LR 1 None.
Definition lr_opt := LR 0 (Some 1).
Definition lr_point k := LR k (Some k).
Definition lr_is_zero r := match r with LR 0 (Some 0) => true | _ => false end.
Definition lr_is_one r := match r with LR 1 (Some 1) => true | _ => false end.
Definition lr_is_all r := match r with LR 0 None => true | _ => false end.
Definition lr_is_point r := match r with LR a (Some b) => a =? b | _ => false end.
Definition lr_start r := match r with LR a _ => a end.
Definition lr_eqb (r s : lr) :=
  match r, s with
  | LR a None, LR b None => a =? b
  | LR a (Some x), LR b (Some y) => (a =? b) && (x =? y)
  | _, _ => false end.
Definition lr_add (r s : lr) : option lr :=
  do i <- add32 (lr_start r) (lr_start s);
  match r, s with
  | LR _ (Some b), LR _ (Some d) => do j <- add32 b d; Some (LR i (Some j))
  | _, _ => Some (LR i None)
  end.
Definition lr_add_point r x := lr_add r (lr_point x).
Definition lr_mul (r s : lr) : option lr :=
  if lr_is_zero r || lr_is_zero s then Some (lr_point 0)
  else match r, s with
       | LR a (Some b), LR c (Some d) => do i <- mul32 a c; do j <- mul32 b d; Some (LR i (Some j))
       | LR a _, LR c _ => do i <- mul32 a c; Some (LR i None)
       end.
Definition lr_rmie (r s : lr) : option bool :=
  if lr_is_point s then Some true else
  match r with
  | LR a None => Some ((0 <? lr_start s) || (a <=? 1))
  | LR a (Some b) => do x <- mul32 (lr_start s) (b - a); Some (a - 1 <=? x)
  end.
Definition lr_shift (r : lr) : lr :=
  match r with
  | LR 0 None => LR 0 None
  | LR 0 (Some 0) => LR 0 (Some 0)
  | LR 0 (Some j) => LR 0 (Some (j - 1))
  | LR i None => LR (i - 1) None
  | LR i (Some j) => LR (i - 1) (Some (j - 1))
  end.

(* ---------- terms ---------- *)
Inductive re : Type :=
| Node (id : N) (nul : bool) (cls : part) (k : node)
with node : Type :=
| NEmpty | NEps
| NRange (c : cs)
| NConcat (a b : re)
| NLoop (a : re) (r : lr)
| NCompl (a : re)
| NUnion (l : list re)
| NInter (l : list re).

Definition rid (e : re) := match e with Node i _ _ _ => i end.
Definition rnul (e : re) := match e with Node _ n _ _ => n end.
Definition rcls (e : re) := match e with Node _ _ c _ => c end.
Definition rnode (e : re) := match e with Node _ _ _ k => k end.
Definition re_eqb (a b : re) := rid a =? rid b.

Definition k_nullable (k : node) : bool :=
  match k with
  | NEmpty => false | NEps => true | NRange _ => false
  | NConcat a b => rnul a && rnul b
  | NLoop a r => (lr_start r =? 0) || rnul a
  | NCompl a => negb (rnul a)
  | NInter l => forallb rnul l
  | NUnion l => existsb rnul l
  end.
Definition merge_classes (l : list re) : part := fold_left (fun acc e => pmerge acc (rcls e)) l pnew.
Definition k_class (k : node) : part :=
  match k with
  | NEmpty | NEps => pnew
  | NRange c => pfrom_set c
  | NConcat a b => if rnul a then pmerge (rcls a) (rcls b) else rcls a
  | NLoop a _ | NCompl a => rcls a
  | NInter l | NUnion l => merge_classes l
  end.
Definition mk_node (i : N) (k : node) : re := Node i (k_nullable k) (k_class k) k.

Definition is_empty_node (e : re) := match rnode e with NEmpty => true | _ => false end.
Definition is_range (e : re) := match rnode e with NRange _ => true | _ => false end.
Definition is_all_chars (e : re) := match rnode e with NRange s => cs_is_alphabet s | _ => false end.
Definition is_full (e : re) := match rnode e with NLoop r rg => lr_is_all rg && is_all_chars r | _ => false end.
Definition concat_or_atomic (e : re) :=
  match rnode e with NEmpty | NEps | NRange _ | NConcat _ _ | NLoop _ _ => true | _ => false end.
Definition match_char_set (e : re) (s : cs) := match rnode e with NRange x => cs_covers s x | _ => false end.

(* ---------- keys and the store ---------- *)
Inductive key :=
| KEmpty | KEps | KRange (c : cs) | KConcat (a b : N) | KLoop (a : N) (r : lr)
| KCompl (a : N) | KUnion (l : list N) | KInter (l : list N).
Definition key_of (k : node) : key :=
  match k with
  | NEmpty => KEmpty | NEps => KEps | NRange c => KRange c
  | NConcat a b => KConcat (rid a) (rid b)
  | NLoop a r => KLoop (rid a) r
  | NCompl a => KCompl (rid a)
  | NUnion l => KUnion (map rid l)
  | NInter l => KInter (map rid l)
  end.
Fixpoint nlist_eqb (l1 l2 : list N) : bool :=
  match l1, l2 with [], [] => true | x :: t1, y :: t2 => (x =? y) && nlist_eqb t1 t2 | _, _ => false end.
Definition key_eqb (k1 k2 : key) : bool :=
  match k1, k2 with
  | KEmpty, KEmpty | KEps, KEps => true
  | KRange (a,b), KRange (c,d) => (a =? c) && (b =? d)
  | KConcat a b, KConcat c d => (a =? c) && (b =? d)
  | KLoop a r, KLoop b s => (a =? b) && lr_eqb r s
  | KCompl a, KCompl b => a =? b
  | KUnion l, KUnion m | KInter l, KInter m => nlist_eqb l m
  | _, _ => false
  end.

Record mgr := { tbl : list (key * re); counter : N; id2re : list re; cache : list ((N * classid) * re) }.
Fixpoint lookup (k : key) (t : list (key * re)) : option re :=
  match t with [] => None | (k', e) :: t' => if key_eqb k k' then Some e else lookup k t' end.
Definition store_make (m : mgr) (k : node) : mgr * re :=
  match lookup (key_of k) (tbl m) with
  | Some e => (m, e)
  | None => let e := mk_node (counter m) k in
            ({| tbl := (key_of k, e) :: tbl m; counter := counter m + 1; id2re := id2re m; cache := cache m |}, e)
  end.
Definition dummy := Node 0 false pnew NEmpty.
Definition id_to_re (m : mgr) (i : N) : re := nth (N.to_nat i) (id2re m) dummy.
Definition push_id2re (m : mgr) (l : list re) : mgr :=
  {| tbl := tbl m; counter := counter m; id2re := id2re m ++ l; cache := cache m |}.
Definition make (m : mgr) (k : node) : mgr * re :=
  match k with
  | NCompl x => (m, id_to_re m (rid x + 1))
  | _ => let i := counter m in
         let '(m1, x) := store_make m k in
         if rid x =? i then
           let '(m2, y) := store_make m1 (NCompl x) in (push_id2re m2 [x; y], x)
         else (m1, x)
  end.
Definition new_mgr : mgr :=
  let m0 := {| tbl := []; counter := 0; id2re := []; cache := [] |} in
  let '(m1, sigma) := store_make m0 (NRange (0, MAXC)) in
  let '(m2, nsigma) := store_make m1 (NCompl sigma) in
  let '(m3, empty) := store_make m2 NEmpty in
  let '(m4, sstar) := store_make m3 (NLoop sigma lr_star) in
  let '(m5, eps) := store_make m4 NEps in
  let '(m6, splus) := store_make m5 (NLoop sigma lr_plus) in
  push_id2re m6 [sigma; nsigma; empty; sstar; eps; splus].
Definition m_sigma m := id_to_re m 0.
Definition m_empty m := id_to_re m 2.
Definition m_full m := id_to_re m 3.
Definition m_eps m := id_to_re m 4.
Definition m_splus m := id_to_re m 5.
Definition complement (m : mgr) (e : re) : re := id_to_re m (N.lxor (rid e) 1).

(* ---------- flattening ---------- *)
Fixpoint flatten_concat (r : re) : list re :=
  match r with
  | Node _ _ _ k =>
    match k with
    | NEps => []
    | NConcat x y => flatten_concat x ++ flatten_concat y
    | _ => [r]
    end
  end.
Fixpoint flatten_inter (r : re) : list re :=
  match r with
  | Node _ _ _ k =>
    match k with
    | NInter l => (fix go (l : list re) := match l with [] => [] | x :: t => flatten_inter x ++ go t end) l
    | _ => [r]
    end
  end.
Fixpoint flatten_union (r : re) : list re :=
  match r with
  | Node _ _ _ k =>
    match k with
    | NUnion l => (fix go (l : list re) := match l with [] => [] | x :: t => flatten_union x ++ go t end) l
    | _ => [r]
    end
  end.

(* ---------- inclusion (sub_language) ---------- *)
Record bpat := { b_start : nat; b_end : nat; b_rigid : bool; b_sm : nat; b_em : nat }.
Definition b_len p := (b_end p - b_start p)%nat.
Definition b_set_match p s e := {| b_start := b_start p; b_end := b_end p; b_rigid := b_rigid p; b_sm := s; b_em := e |}.
Definition b_make s e r := {| b_start := s; b_end := e; b_rigid := r; b_sm := 0; b_em := 0 |}.
Definition b_shift p d := {| b_start := b_start p - d; b_end := b_end p - d; b_rigid := b_rigid p; b_sm := b_sm p; b_em := b_em p |}%nat.

Fixpoint base_patterns_go (l : list re) (i j : nat) (rigid : bool) (acc : list bpat) : list bpat :=
  match l with
  | [] => acc ++ [b_make j i rigid]
  | x :: t => let ri := is_range x in
              if Bool.eqb rigid ri then base_patterns_go t (S i) j rigid acc
              else base_patterns_go t (S i) i ri (acc ++ [b_make j i rigid])
  end.
Definition base_patterns (r : list re) : list bpat :=
  match r with [] => [] | x :: t => base_patterns_go t 1 0 (is_range x) [] end.

Definition slice {A} (l : list A) (s e : nat) : list A := firstn (e - s) (skipn s l).
Fixpoint rigid_match_at (pattern : list cs) (s : list re) : bool :=   (* s already positioned *)
  match pattern, s with
  | [], _ => true
  | p :: pt, x :: st => match_char_set x p && rigid_match_at pt st
  | _ :: _, [] => false
  end.
Definition rigid_at (pattern : list cs) (s : list re) (i : nat) := rigid_match_at pattern (skipn i s).
Fixpoint first_some {A} (f : nat -> option A) (l : list nat) : option A :=
  match l with [] => None | x :: t => match f x with Some r => Some r | None => first_some f t end end.
Definition next_rigid_match (pattern : list cs) (s : list re) (i : nat) : option (nat * nat) :=
  let pl := length pattern in let sl := length s in
  if Nat.leb pl sl then
    first_some (fun j => if rigid_at pattern s j then Some (j, (j + pl)%nat) else None)
               (seq i (S (sl - pl) - i))
  else None.
Definition prev_rigid_match (pattern : list cs) (s : list re) (i : nat) : option (nat * nat) :=
  let pl := length pattern in
  first_some (fun j => if rigid_at pattern s (j - pl) then Some ((j - pl)%nat, j) else None)
             (rev (seq pl (S i - pl))).
Definition char_sets_of_pattern (p : list re) : list cs :=
  flat_map (fun r => match rnode r with NRange s => [s] | _ => [] end) p.
Definition pat_sets (v : list re) (p : bpat) := char_sets_of_pattern (slice v (b_start p) (b_end p)).
Definition rigid_prefix_match (u v : list re) (p : bpat) :=
  if Nat.leb (b_len p) (length u) then rigid_at (pat_sets v p) u 0 else false.
Definition rigid_suffix_match (u v : list re) (p : bpat) :=
  if Nat.leb (b_len p) (length u) then rigid_at (pat_sets v p) u (length u - b_len p) else false.

Fixpoint find_rigid_matches (u v : list re) (pats : list bpat) (i : nat) : bool * list bpat :=
  match pats with
  | [] => (true, [])
  | p :: t =>
    if b_rigid p then
      match next_rigid_match (pat_sets v p) u i with
      | None => (false, p :: t)
      | Some (j, k) => let '(ok, t') := find_rigid_matches u v t k in (ok, b_set_match p j k :: t')
      end
    else let '(ok, t') := find_rigid_matches u v t i in (ok, p :: t')
  end.
(* reverse search: process the reversed list, then reverse back *)
Fixpoint find_rigid_matches_rev_go (u v : list re) (rpats : list bpat) (i : nat) : bool * list bpat :=
  match rpats with
  | [] => (true, [])
  | p :: t =>
    if b_rigid p then
      match prev_rigid_match (pat_sets v p) u i with
      | None => (false, p :: t)
      | Some (j, k) => let '(ok, t') := find_rigid_matches_rev_go u v t j in (ok, b_set_match p j k :: t')
      end
    else let '(ok, t') := find_rigid_matches_rev_go u v t i in (ok, p :: t')
  end.
Definition find_rigid_matches_rev (u v : list re) (pats : list bpat) : bool * list bpat :=
  let '(ok, r) := find_rigid_matches_rev_go u v (rev pats) (length u) in (ok, rev r).

Fixpoint set_flexible_regions_go (prev_end : nat) (l : list bpat) (slen : nat) : list bpat :=
  match l with
  | [] => []
  | p :: t =>
    let p' := if b_rigid p then p
              else b_set_match p prev_end (match t with [] => slen | q :: _ => b_sm q end) in
    p' :: set_flexible_regions_go (b_em p') t slen
  end.
Definition set_flexible_regions (l : list bpat) (slen : nat) := set_flexible_regions_go 0 l slen.
Definition flexible_match (v : list re) := match v with [x] => is_full x | _ => false end.
Definition match_flexible_patterns (u v : list re) (pats : list bpat) : bool :=
  match pats with
  | [] => match u with [] => true | _ => false end
  | _ => let ps := set_flexible_regions pats (length u) in
         forallb (fun p => b_rigid p || flexible_match (slice v (b_start p) (b_end p))) ps
  end.
Definition removelast_n {A} (l : list A) (n : nat) := firstn (length l - n) l.

Definition concat_inclusion (u v : list re) : bool :=
  let p := base_patterns v in
  (* rigid prefix *)
  let st1 : option (list bpat * list re * list re) :=
    match p with
    | pat :: rest =>
      if b_rigid pat then
        if rigid_prefix_match u v pat then
          let len := b_len pat in Some (map (fun q => b_shift q len) rest, skipn len u, skipn len v)
        else None
      else Some (p, u, v)
    | [] => Some (p, u, v)
    end in
  match st1 with
  | None => false
  | Some (p, u, v) =>
    let st2 : option (list bpat * list re * list re) :=
      match rev p with
      | pat :: _ =>
        if b_rigid pat then
          if rigid_suffix_match u v pat then
            let len := b_len pat in Some (removelast p, removelast_n u len, removelast_n v len)
          else None
        else Some (p, u, v)
      | [] => Some (p, u, v)
      end in
    match st2 with
    | None => false
    | Some (p, u, v) =>
      let '(ok1, p1) := find_rigid_matches u v p 0 in
      if ok1 && match_flexible_patterns u v p1 then true
      else let '(ok2, p2) := find_rigid_matches_rev u v p1 in
           ok2 && match_flexible_patterns u v p2
    end
  end.

Fixpoint sub_language (fuel : nat) (r s : re) : bool :=
  match fuel with
  | O => false
  | S f =>
    if re_eqb r s then true else
    match rnode r, rnode s with
    | NEmpty, _ => true
    | _, NEmpty => false
    | NEps, _ => rnul s
    | _, NEps => false
    | NCompl r1, NCompl s2 => sub_language f s2 r1
    | _, NUnion l => concat_or_atomic r && existsb (fun x => sub_language f r x) l
    | NInter l, _ => concat_or_atomic s && existsb (fun x => sub_language f x s) l
    | NUnion l, _ => concat_or_atomic s && forallb (fun x => sub_language f x s) l
    | _, NInter l => concat_or_atomic r && forallb (fun x => sub_language f r x) l
    | _, _ => concat_inclusion (flatten_concat r) (flatten_concat s)
    end
  end.
Fixpoint height (e : re) : nat :=
  match e with
  | Node _ _ _ k =>
    match k with
    | NEmpty | NEps | NRange _ => 1
    | NConcat a b => S (Nat.max (height a) (height b))
    | NLoop a _ | NCompl a => S (height a)
    | NUnion l | NInter l => S ((fix go (l : list re) := match l with [] => O | x :: t => Nat.max (height x) (go t) end) l)
    end
  end%nat.
Definition included_in (r s : re) := sub_language (height r + height s + 1) r s.

(* ---------- set-operation simplification ---------- *)
Fixpoint insert_by_id (x : re) (l : list re) : list re :=
  match l with [] => [x] | y :: t => if rid x <=? rid y then x :: l else y :: insert_by_id x t end.
Definition sort_by_id (l : list re) := fold_right insert_by_id [] l.
Fixpoint dedup (l : list re) : list re :=
  match l with
  | x :: ((y :: _) as t) => if re_eqb x y then dedup t else x :: dedup t
  | _ => l
  end.
Fixpoint contains (v : list re) (x : re) : bool :=
  match v with
  | [] => false
  | y :: t => if re_eqb y x then true else if rid x <? rid y then false else contains t x
  end.
Fixpoint simplify_go (rest : list re) (previous : re) (acc : list re) (bottom top : re) : list re :=
  match rest with
  | [] => acc
  | current :: t =>
    if (rid current =? rid previous + 1) && (N.even (rid previous)) then [top]
    else if negb (re_eqb current bottom) then simplify_go t current (acc ++ [current]) bottom top
    else simplify_go t previous acc bottom top
  end.
Definition simplify_set_operation (v : list re) (bottom top : re) : list re :=
  match v with
  | [] => []
  | _ =>
    let v := dedup (sort_by_id v) in
    if contains v top then [top]
    else match v with
         | [] => []
         | v0 :: t => simplify_go t v0 (if re_eqb v0 bottom then [] else [v0]) bottom top
         end
  end.

Definition make_inter (m : mgr) (v : list re) : mgr * re :=
  let v := simplify_set_operation v (m_full m) (m_empty m) in
  if contains v (m_eps m) then
    (m, if forallb rnul v then m_eps m else m_empty m)
  else match v with
       | [] => (m, m_full m)
       | [x] => (m, x)
       | _ => make m (NInter v)
       end.
Definition is_subsumed (r : re) (a : list re) := existsb (fun x => negb (re_eqb x r) && included_in r x) a.
Fixpoint remove_subsumed_go (kept rest : list re) : list re :=
  match rest with
  | [] => kept
  | cur :: t => if is_subsumed cur (kept ++ rest) then remove_subsumed_go kept t
                else remove_subsumed_go (kept ++ [cur]) t
  end.
Definition make_union (m : mgr) (v : list re) : mgr * re :=
  let v := simplify_set_operation v (m_empty m) (m_full m) in
  let v := match v with _ :: _ :: _ => remove_subsumed_go [] v | _ => v end in
  match v with
  | [] => (m, m_empty m)
  | [x] => (m, x)
  | _ => make m (NUnion v)
  end.
Definition inter_list (m : mgr) (l : list re) := make_inter m (flat_map flatten_inter l).
Definition union_list (m : mgr) (l : list re) := make_union m (flat_map flatten_union l).
Definition inter m a b := inter_list m [a; b].
Definition union m a b := union_list m [a; b].
Definition diff m a b := inter m a (complement m b).

(* ---------- concat, loops ---------- *)
Definition loop_of (e : re) : option (re * lr) := match rnode e with NLoop x r => Some (x, r) | _ => None end.
Definition mkS (p : mgr * re) : option (mgr * re) := Some p.

Fixpoint concat (e1 : re) (m : mgr) (e2 : re) {struct e1} : option (mgr * re) :=
  match e1 with
  | Node _ _ _ k1 =>
    match k1, rnode e2 with
    | NEmpty, _ => Some (m, m_empty m)
    | _, NEmpty => Some (m, m_empty m)
    | NEps, _ => Some (m, e2)
    | _, NEps => Some (m, e1)
    | _, _ =>
      (* rule 5: R . R^[i,j] *)
      match (match loop_of e2 with Some (y, rng) => if re_eqb e1 y then Some rng else None | None => None end) with
      | Some rng => do r <- lr_add_point rng 1; mkS (make m (NLoop e1 r))
      | None =>
        (* rule 6: R^[i,j] . R *)
        match (match loop_of e1 with Some (x, rng) => if re_eqb e2 x then Some rng else None | None => None end) with
        | Some rng => do r <- lr_add_point rng 1; mkS (make m (NLoop e2 r))
        | None =>
          (* rule 7: R^[a,b] . R^[c,d] *)
          match (match loop_of e1, loop_of e2 with
                 | Some (x, xr), Some (y, yr) => if re_eqb x y then Some (x, xr, yr) else None
                 | _, _ => None end) with
          | Some (x, xr, yr) => do r <- lr_add xr yr; mkS (make m (NLoop x r))
          | None =>
            if re_eqb e1 e2 then mkS (make m (NLoop e1 (lr_point 2)))
            else match k1 with
                 | NConcat x y =>
                     do (m1, rt) <- concat y m e2; concat x m1 rt
                 | _ =>
                     if rnul e1 && re_eqb e2 (m_full m) then Some (m, e2)
                     else mkS (make m (NConcat e1 e2))
                 end
          end
        end
      end
    end
  end.

Definition mk_loop (m : mgr) (e : re) (range : lr) : option (mgr * re) :=
  if lr_is_zero range then Some (m, m_eps m)
  else if lr_is_one range then Some (m, e)
  else match rnode e with
       | NEmpty => Some (m, if lr_start range =? 0 then m_eps m else m_empty m)   (* D1 repaired *)
       | NEps => Some (m, m_eps m)
       | NLoop x xr =>
           do ex <- lr_rmie xr range;
           if ex then (do r <- lr_mul xr range; mkS (make m (NLoop x r)))
           else mkS (make m (NLoop e range))
       | _ => mkS (make m (NLoop e range))
       end.
Definition char_set (m : mgr) (s : cs) := make m (NRange s).
Definition range (m : mgr) (a b : N) : option (mgr * re) :=
  if (a <=? b) && (b <=? MAXC) then mkS (char_set m (a, b)) else None.
Definition mchar (m : mgr) (x : N) := range m x x.
Fixpoint str_go (m : mgr) (rw : list N) (acc : re) : option (mgr * re) :=
  match rw with
  | [] => Some (m, acc)
  | c :: t => do (m1, ch) <- mchar m c; do (m2, r) <- concat ch m1 acc; str_go m2 t r
  end.
Definition mstr (m : mgr) (w : list N) := str_go m (rev w) (m_eps m).
Fixpoint concat_list_go (m : mgr) (rv : list re) (acc : re) : option (mgr * re) :=
  match rv with [] => Some (m, acc) | x :: t => do (m1, r) <- concat x m acc; concat_list_go m1 t r end.
Definition concat_list (m : mgr) (l : list re) := concat_list_go m (rev (flat_map flatten_concat l)) (m_eps m).

(* ---------- derivatives ---------- *)
Fixpoint cache_lookup (i : N) (c : classid) (l : list ((N * classid) * re)) : option re :=
  match l with
  | [] => None
  | ((j, d), r) :: t => if (i =? j) && classid_eqb c d then Some r else cache_lookup i c t
  end.
Definition cache_insert (m : mgr) (i : N) (c : classid) (r : re) : mgr :=
  {| tbl := tbl m; counter := counter m; id2re := id2re m; cache := ((i, c), r) :: cache m |}.

Fixpoint cached_deriv (e : re) (m : mgr) (cid : classid) {struct e} : option (mgr * re) :=
  match cache_lookup (rid e) cid (cache m) with
  | Some r => Some (m, r)
  | None =>
    do c <- ppick (rcls e) cid;
    let dv (x : re) (m : mgr) := cached_deriv x m (pclass_of_char (rcls x) c) in
    do (m', r) <-
      match e with
      | Node _ _ _ k =>
        match k with
        | NEmpty | NEps => Some (m, m_empty m)
        | NRange s => Some (m, if cs_contains s c then m_eps m else m_empty m)
        | NConcat e1 e2 =>
            do (m1, d1) <- cached_deriv e1 m (pclass_of_char (rcls e1) c);
            do (m2, d1') <- concat d1 m1 e2;
            if rnul e1 then
              do (m3, d2) <- cached_deriv e2 m2 (pclass_of_char (rcls e2) c);
              mkS (union m3 d1' d2)
            else Some (m2, d1')
        | NLoop e1 rg =>
            do (m1, d1) <- cached_deriv e1 m (pclass_of_char (rcls e1) c);
            do (m2, e2) <- mk_loop m1 e1 (lr_shift rg);
            concat d1 m2 e2
        | NCompl e1 =>
            do (m1, d1) <- cached_deriv e1 m (pclass_of_char (rcls e1) c);
            Some (m1, complement m1 d1)
        | NInter l =>
            do (m1, ds) <- (fix dl (l : list re) (m : mgr) : option (mgr * list re) :=
                               match l with
                               | [] => Some (m, [])
                               | x :: t => do (m1, d) <- cached_deriv x m (pclass_of_char (rcls x) c);
                                           do (m2, ds) <- dl t m1; Some (m2, d :: ds)
                               end) l m;
            mkS (inter_list m1 ds)
        | NUnion l =>
            do (m1, ds) <- (fix dl (l : list re) (m : mgr) : option (mgr * list re) :=
                               match l with
                               | [] => Some (m, [])
                               | x :: t => do (m1, d) <- cached_deriv x m (pclass_of_char (rcls x) c);
                                           do (m2, ds) <- dl t m1; Some (m2, d :: ds)
                               end) l m;
            mkS (union_list m1 ds)
        end
      end;
    Some (cache_insert m' (rid e) cid r, r)
  end.
Definition deriv (m : mgr) (e : re) (c : N) := cached_deriv e m (pclass_of_char (rcls e) c).
Fixpoint str_derivative (m : mgr) (e : re) (w : list N) : option (mgr * re) :=
  match w with [] => Some (m, e) | c :: t => do (m1, d) <- deriv m e c; str_derivative m1 d t end.
Definition str_in_re (m : mgr) (w : list N) (e : re) : option (mgr * bool) :=
  do (m1, d) <- str_derivative m e w; Some (m1, rnul d).

(* ---------- BFS over derivatives ---------- *)
Fixpoint push_all_derivs (m : mgr) (r : re) (cids : list classid) (queue seen : list re) : option (mgr * list re * list re) :=
  match cids with
  | [] => Some (m, queue, seen)
  | cid :: t =>
    do (m1, d) <- cached_deriv r m cid;
    if existsb (re_eqb d) seen then push_all_derivs m1 r t queue seen
    else push_all_derivs m1 r t (queue ++ [d]) (d :: seen)
  end.
Fixpoint iter_go (fuel : nat) (m : mgr) (queue seen out : list re) : option (mgr * list re) :=
  match fuel with
  | O => None
  | S f =>
    match queue with
    | [] => Some (m, out)
    | r :: q =>
      do (m1, q1, s1) <- push_all_derivs m r (pclass_ids (rcls r)) q seen;
      iter_go f m1 q1 s1 (out ++ [r])
    end
  end.
Definition iter_derivatives (fuel : nat) (m : mgr) (e : re) := iter_go fuel m [e] [e] [].
Definition is_empty_re (fuel : nat) (m : mgr) (e : re) : option (mgr * bool) :=
  do (m1, l) <- iter_derivatives fuel m e; Some (m1, forallb (fun x => negb (rnul x)) l).

Fixpoint start_char (fuel : nat) (e : re) (m : mgr) (c : N) {struct e} : option (mgr * bool) :=
  match e with
  | Node _ _ _ k =>
    match k with
    | NEmpty | NEps => Some (m, false)
    | NRange s => Some (m, cs_contains s c)
    | NLoop x _ => start_char fuel x m c
    | NUnion l =>
        (fix go (l : list re) (m : mgr) : option (mgr * bool) :=
           match l with
           | [] => Some (m, false)
           | x :: t => do (m1, b) <- start_char fuel x m c; if b then Some (m1, true) else go t m1
           end) l m
    | _ => do (m1, d) <- deriv m e c; do (m2, b) <- is_empty_re fuel m1 d; Some (m2, negb b)
    end
  end.
