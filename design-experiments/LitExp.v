From Coq Require Import List NArith Bool Lia.
Import ListNotations.
Open Scope N_scope.
Definition MAXC : N := 196607.
Definition REPL : N := 65533.

Inductive st := Init | AfterSlash | AfterSlashU | AfterSlashUHex | AfterSlashUBrace.
Record pa := { state : st; sofar : list N (* reversed *); pending : list N (* reversed *); code : N }.
Definition BS := 92. Definition LU := 117. Definition LB := 123. Definition RB := 125.
Definition hexval (x : N) : option N :=
  if (48 <=? x) && (x <=? 57) then Some (x - 48)
  else if (97 <=? x) && (x <=? 102) then Some (x - 87)
  else if (65 <=? x) && (x <=? 70) then Some (x - 55) else None.
Definition is_hex x := match hexval x with Some _ => true | None => false end.
Definition clampc (x : N) := if x <=? MAXC then x else REPL.   (* D7 fix *)
Definition pushc (p : pa) (x : N) := {| state := state p; sofar := clampc x :: sofar p; pending := pending p; code := code p |}.
Definition pend (p : pa) (x : N) (s : st) := {| state := s; sofar := sofar p; pending := x :: pending p; code := code p |}.
Definition consume (p : pa) (x : N) := if x =? BS then pend p x AfterSlash else pushc p x.
Definition flush (p : pa) := {| state := Init; sofar := pending p ++ sofar p; pending := []; code := 0 |}.
Definition close (p : pa) := {| state := Init; sofar := code p :: sofar p; pending := []; code := 0 |}.
Definition add_hex (p : pa) (x : N) (s : st) :=
  match hexval x with Some h => {| state := s; sofar := sofar p; pending := x :: pending p; code := N.lor (N.shiftl (code p) 4) h |} | None => p end.
Definition plen (p : pa) := N.of_nat (length (pending p)).
Definition accept (p : pa) (x : N) : pa :=
  match state p with
  | Init => consume p x
  | AfterSlash => if x =? LU then pend p x AfterSlashU else consume (flush p) x
  | AfterSlashU => if x =? LB then pend p x AfterSlashUBrace
                   else if is_hex x then add_hex p x AfterSlashUHex else consume (flush p) x
  | AfterSlashUBrace =>
      if (x =? RB) && (3 <? plen p) && (code p <=? MAXC) then close p
      else if is_hex x && (plen p <? 8) then add_hex p x AfterSlashUBrace
      else consume (flush p) x
  | AfterSlashUHex =>
      if is_hex x then let q := add_hex p x AfterSlashUHex in if plen q =? 6 then close q else q
      else consume (flush p) x
  end.
Definition parse (t : list N) : list N :=
  rev (sofar (flush (fold_left accept t {| state := Init; sofar := []; pending := []; code := 0 |}))).

(* reference: look-ahead grammar *)
Fixpoint hexs (n : nat) (t : list N) (acc : N) (cnt : nat) : (N * nat * list N) :=
  (* read up to n hex digits *)
  match n, t with
  | S k, x :: r => match hexval x with Some h => hexs k r (acc * 16 + h) (S cnt) | None => (acc, cnt, t) end
  | _, _ => (acc, cnt, t)
  end.
Definition try_escape (t : list N) : option (N * list N) :=
  match t with
  | 92 :: 117 :: 123 :: r =>
      let '(v, cnt, r') := hexs 5 r 0 0 in
      match cnt, r' with
      | S _, 125 :: r'' => if v <=? MAXC then Some (v, r'') else None
      | _, _ => None
      end
  | 92 :: 117 :: r =>
      let '(v, cnt, r') := hexs 4 r 0 0 in
      if Nat.eqb cnt 4 then Some (v, r') else None
  | _ => None
  end.
Fixpoint ref (fuel : nat) (t : list N) : list N :=
  match fuel with O => [] | S f =>
  match t with
  | [] => []
  | x :: r => match try_escape t with Some (v, r') => v :: ref f r' | None => clampc x :: ref f r end
  end end.
Definition parse_ref t := ref (S (length t)) t.

Fixpoint list_eqb (a b : list N) := match a, b with [] , [] => true | x::s, y::t => (x =? y) && list_eqb s t | _, _ => false end.

(* all texts up to length n over alphabet *)
Definition alpha : list N := [92; 117; 123; 125; 48; 50; 51; 102; 70; 103; 34; 196608].
Fixpoint texts (n : nat) : list (list N) :=
  match n with O => [[]] | S k => let prev := texts k in prev ++ flat_map (fun t => if Nat.eqb (length t) k then map (fun a => a :: t) alpha else []) prev end.
Eval vm_compute in length (texts 4).
Time Eval vm_compute in forallb (fun t => list_eqb (parse t) (parse_ref t)) (texts 4).
(* longer: focused alphabet for brace escapes up to length 9 *)
Definition alpha2 : list N := [92; 117; 123; 125; 50; 102].
Fixpoint texts2 (n : nat) : list (list N) :=
  match n with O => [[]] | S k => let prev := texts2 k in prev ++ flat_map (fun t => if Nat.eqb (length t) k then map (fun a => a :: t) alpha2 else []) prev end.
Time Eval vm_compute in forallb (fun t => list_eqb (parse t) (parse_ref t)) (texts2 7).

(* Display with D4 fix *)
Definition hexdig (d : N) : N := if d <? 10 then 48 + d else 87 + d.
Fixpoint hexrev (fuel : nat) (x : N) : list N := match fuel with O => [] | S f => if x <? 16 then [hexdig x] else hexdig (x mod 16) :: hexrev f (x / 16) end.
Definition hex (x : N) := rev (hexrev 10 x).
Definition pad (w : nat) (l : list N) := repeat 48 (w - length l) ++ l.
Definition print_char (x : N) : list N :=
  if x =? 34 then [34;34]
  else if x =? 92 then [92;117;123;53;99;125]      (* D4 fix: \u{5c} *)
  else if (32 <=? x) && (x <? 127) then [x]
  else if (x <? 32) || (x =? 127) then [92;117;123] ++ pad 2 (hex x) ++ [125]
  else if x <? 65536 then [92;117] ++ pad 4 (hex x)
  else [92;117;123] ++ hex x ++ [125].
Definition undouble_char (l : list N) := match l with [34;34] => [34] | _ => l end.
Definition init := {| state := Init; sofar := []; pending := []; code := 0 |}.
Definition char_ok (x : N) : bool :=
  let out := undouble_char (print_char x) in
  let p := fold_left accept out init in
  forallb (fun c => (32 <=? c) && (c <=? 126)) (print_char x) &&
  match state p, pending p, sofar p with Init, [], [y] => y =? x | _, _, _ => false end.
(* N-indexed sweep: check [lo, lo+2^k) by binary splitting on a positive *)
Fixpoint sweep (k : nat) (lo : N) : bool :=
  match k with
  | O => char_ok lo
  | S j => sweep j lo && sweep j (lo + N.shiftl 1 (N.of_nat j))
  end.
(* 196608 = 3 * 2^16 *)
Time Eval vm_compute in sweep 16 0 && sweep 16 65536 && sweep 16 131072.
