From Coq Require Import List NArith Bool Lia.
Import ListNotations.
Open Scope N_scope.
Inductive lr := LR (lo : N) (hi : option N).
Definition U32 : N := 4294967295.
Definition add32 (x y : N) : option N := if x + y <=? U32 then Some (x + y) else None.
Definition mul32 (x y : N) : option N := if x * y <=? U32 then Some (x * y) else None.
Definition is_zero r := match r with LR 0 (Some 0) => true | _ => false end.
Definition is_point r := match r with LR a (Some b) => a =? b | _ => false end.
Definition is_inf r := match r with LR _ None => true | _ => false end.
Definition start r := match r with LR a _ => a end.
Definition bind {A B} (o : option A) (f : A -> option B) := match o with Some x => f x | None => None end.
Definition mul (r s : lr) : option lr :=
  if is_zero r || is_zero s then Some (LR 0 (Some 0))
  else match r, s with
       | LR a (Some b), LR c (Some d) => bind (mul32 a c) (fun i => bind (mul32 b d) (fun j => Some (LR i (Some j))))
       | LR a _, LR c _ => bind (mul32 a c) (fun i => Some (LR i None))
       end.
Definition rmie (r s : lr) : option bool :=
  if is_point s then Some true else
  match r with
  | LR a None => Some ((0 <? start s) || (a <=? 1))
  | LR a (Some b) => bind (mul32 (start s) (b - a)) (fun x => Some (a - 1 <=? x))   (* saturating_sub = N truncated sub *)
  end.
Definition inr (n : N) (r : lr) := match r with LR a None => a <=? n | LR a (Some b) => (a <=? n) && (n <=? b) end.
(* ksum r y n: n is a sum of y elements of r : by iteration on y with explicit sumsets over a bounded universe *)
Definition NMAX : N := 40.
Definition univ := map N.of_nat (seq 0 41).
Definition step (r : lr) (prev : list N) : list N :=
  filter (fun n => existsb (fun p => (p <=? n) && inr (n - p) r) prev) univ.
Fixpoint sums (r : lr) (k : nat) (cur : list N) : list (list N) :=  (* cur = y-fold sumset; returns sumsets for y, y+1, ... *)
  match k with O => [] | S j => cur :: sums r j (step r cur) end.
Definition mem (n : N) (l : list N) := existsb (N.eqb n) l.
Definition small : list lr :=
  flat_map (fun a => LR a None :: map (fun b => LR a (Some b)) (filter (fun b => a <=? b) [0;1;2;3;4;5])) [0;1;2;3;4;5].
Eval vm_compute in length small.
Definition check (r s : lr) : bool :=
  let ss := sums r 42 [0] in
  let K n := existsb (fun yl => inr (N.of_nat (fst yl)) s && mem n (snd yl)) (combine (seq 0 42) ss) in
  match rmie r s, mul r s with
  | Some b, Some t => Bool.eqb b (forallb (fun n => Bool.eqb (K n) (inr n t)) univ)
  | _, _ => false
  end.
Time Eval vm_compute in filter (fun rs => negb (check (fst rs) (snd rs))) (list_prod small small).
