open Rmodel
let rec pos_of_int n = if n = 1 then XH else if n land 1 = 0 then XO (pos_of_int (n lsr 1)) else XI (pos_of_int (n lsr 1))
let n_of_int n = if n = 0 then N0 else Npos (pos_of_int n)
let rec int_of_pos = function XH -> 1 | XO p -> 2 * int_of_pos p | XI p -> 2 * int_of_pos p + 1
let int_of_n = function N0 -> 0 | Npos p -> int_of_pos p
let rec nat_of_int n = if n = 0 then O else S (nat_of_int (n-1))
exception Panic
let get = function Some x -> x | None -> raise Panic
let fuel = nat_of_int 5000

let show_range = function
  | LR (a, Some b) -> let a = int_of_n a and b = int_of_n b in
      if a = 0 && b = 1 then "?" else if a = b then string_of_int a else Printf.sprintf "[%d..%d]" a b
  | LR (a, None) -> let a = int_of_n a in if a = 0 then "*" else if a = 1 then "+" else Printf.sprintf "[%d..inf)" a
let rec dump e =
  let i = int_of_n (rid e) in
  match rnode e with
  | NEmpty -> Printf.sprintf "E%d" i
  | NEps -> Printf.sprintf "e%d" i
  | NRange (a, b) -> Printf.sprintf "R%d[%d,%d]" i (int_of_n a) (int_of_n b)
  | NConcat (a, b) -> Printf.sprintf "C%d(%s,%s)" i (dump a) (dump b)
  | NLoop (a, r) -> Printf.sprintf "L%d{%s}(%s)" i (show_range r) (dump a)
  | NCompl a -> Printf.sprintf "N%d(%s)" i (dump a)
  | NUnion l -> Printf.sprintf "U%d(%s)" i (String.concat "," (List.map dump l))
  | NInter l -> Printf.sprintf "I%d(%s)" i (String.concat "," (List.map dump l))

(* parse program: prefix tokens; returns (mgr, re) *)
let rec build m toks =
  match toks with
  | [] -> failwith "eof"
  | t :: r ->
    let un f = let (m1, a, r1) = build m r in let (m2, x) = f m1 a in (m2, x, r1) in
    let bin f = let (m1, a, r1) = build m r in let (m2, b, r2) = build m1 r1 in let (m3, x) = f m2 a b in (m3, x, r2) in
    match t with
    | "n" -> (m, m_empty m, r) | "e" -> (m, m_eps m, r) | "a" -> (m, m_full m, r) | "c" -> (m, m_sigma m, r)
    | "r" -> (match r with a :: b :: r' -> let (m1, x) = get (range m (n_of_int (int_of_string a)) (n_of_int (int_of_string b))) in (m1, x, r') | _ -> failwith "r")
    | "s" -> (match r with k :: r' -> let k = int_of_string k in
                let rec take n l acc = if n = 0 then (List.rev acc, l) else (match l with x :: t -> take (n-1) t (n_of_int (int_of_string x) :: acc) | [] -> failwith "s") in
                let (w, r'') = take k r' [] in let (m1, x) = get (mstr m w) in (m1, x, r'')
              | _ -> failwith "s")
    | "C" -> bin (fun m a b -> get (concat a m b))
    | "U" -> bin (fun m a b -> union m a b)
    | "I" -> bin (fun m a b -> inter m a b)
    | "D" -> bin (fun m a b -> diff m a b)
    | "N" -> un (fun m a -> (m, complement m a))
    | "S" -> un (fun m a -> get (mk_loop m a lr_star))
    | "P" -> un (fun m a -> get (mk_loop m a lr_plus))
    | "O" -> un (fun m a -> get (mk_loop m a lr_opt))
    | "W" -> (match r with k :: r' -> let k = n_of_int (int_of_string k) in
                let (m1, a, r1) = build m r' in let (m2, x) = get (mk_loop m1 a (lr_point k)) in (m2, x, r1) | _ -> failwith "W")
    | "L" -> (match r with i :: j :: r' -> let i = int_of_string i and j = int_of_string j in
                let (m1, a, r1) = build m r' in
                if i <= j then let (m2, x) = get (mk_loop m1 a (LR (n_of_int i, Some (n_of_int j)))) in (m2, x, r1)
                else (m1, m_empty m1, r1) | _ -> failwith "L")
    | "F" -> (match r with i :: r' -> let (m1, a, r1) = build m r' in
                let (m2, x) = get (mk_loop m1 a (LR (n_of_int (int_of_string i), None))) in (m2, x, r1) | _ -> failwith "F")
    | _ -> failwith ("tok " ^ t)


let rec int_of_nat = function O -> 0 | S k -> 1 + int_of_nat k
let dump_aut (a : automaton) =
  let st (s : astate) =
    let trs = List.map2 (fun (lo,hi) t -> Printf.sprintf "%d-%d>%d" (int_of_n lo) (int_of_n hi) (int_of_nat t)) s.a_classes.ivs s.a_succ in
    Printf.sprintf "s%d:%s:[%s]:d=%s" (int_of_nat s.a_id) (if s.a_final then "F" else "N") (String.concat "," trs)
      (match s.a_default with Some d -> string_of_int (int_of_nat d) | None -> "-") in
  Printf.sprintf "n=%d f=%d i=%d ; %s" (int_of_nat a.num_states) (int_of_nat a.num_final) (int_of_nat a.initial)
    (String.concat " " (List.map st a.astates))
let table_str (a : automaton) =
  let al = pick_alphabet a in
  let t = get (compile_successors a) in
  let n = int_of_nat a.num_states in
  let cells = List.concat (List.init n (fun s -> List.mapi (fun i _ -> string_of_int (int_of_nat (ct_eval t (nat_of_int s) (nat_of_int i)))) al)) in
  Printf.sprintf "A=%s T=%s" (String.concat "," (List.map (fun c -> string_of_int (int_of_n c)) al)) (String.concat "," cells)
let strings =
  let al = [97;98;99;101] in
  let rec go n = if n = 0 then [[]] else let p = go (n-1) in p @ List.concat_map (fun s -> if List.length s = n-1 then List.map (fun c -> c :: s) al else []) p in
  go 3
let bit b = if b then "1" else "0"
let () =
  let ic = open_in Sys.argv.(1) in
  (try while true do
    let line = input_line ic in
    let toks = List.filter (fun s -> s <> "") (String.split_on_char ' ' line) in
    (match toks with
     | "P" :: "|" :: rest ->
       (try
         let (m, e, _) = build new_mgr rest in
         let mem = String.concat "" (List.map (fun w -> let (_, b) = get (str_in_re m (List.map n_of_int w) e) in bit b) strings) in
         let (m1, ds) = get (iter_derivatives fuel m e) in
         let (m2, emp) = get (is_empty_re fuel m1 e) in
         let sc = String.concat "" (List.map (fun c -> let (_, b) = get (start_char fuel e m2 (n_of_int c)) in bit b) [97;98;99;100;101]) in
         let (m3, gs) = get (get_string fuel m2 e) in
         let gss = match gs with None -> "None" | Some w -> "Some[" ^ String.concat "," (List.map (fun c -> string_of_int (int_of_n c)) w) ^ "]" in
         let (_, oa) = get (compile_with_bound fuel m3 e None) in
         let a = get oa in
         let mi = get (minimize a) in
         Printf.printf "%s | %s | %d | %s | %s | %s | %s | %s | %s | %s\n" (dump e) (bit (rnul e)) (List.length ds) mem (bit emp) sc gss (dump_aut a) (table_str a) (dump_aut mi)
       with Panic -> print_endline "PANIC")
     | "Q" :: "|" :: rest ->
       (try
         let (m, a, r1) = build new_mgr rest in
         let (m1, b, _) = build m r1 in
         let (_, u) = union m1 a b in
         Printf.printf "%s %s | %s\n" (bit (included_in a b)) (bit (included_in b a)) (dump u)
       with Panic -> print_endline "PANIC")
     | "B" :: "|" :: rest ->
       (try
         let ints = List.map int_of_string rest in
         (match ints with
          | n :: r ->
            let b = ref (b_new (n_of_int 0)) in
            let r = ref r in
            let pop () = match !r with x :: t -> r := t; x | [] -> failwith "B" in
            for s = 0 to n - 1 do
              let fin = pop () in let dflt = pop () in let nt = pop () in
              for _ = 1 to nt do
                let lo = pop () in let hi = pop () in let t = pop () in
                b := b_add_transition !b (n_of_int s) (n_of_int lo, n_of_int hi) (n_of_int t)
              done;
              b := b_set_default !b (n_of_int s) (n_of_int dflt);
              if fin = 1 then b := b_mark_final !b (n_of_int s)
            done;
            let a = get (build_unchecked !b) in
            let ru = remove_unreachable a in
            let mi = get (minimize a) in
            let mi2 = get (minimize ru) in
            Printf.printf "%s | %s | %s | %s | %s\n" (dump_aut a) (table_str a) (dump_aut ru) (dump_aut mi) (dump_aut mi2)
          | [] -> ())
       with Panic -> print_endline "PANIC")
     | _ -> ())
  done with End_of_file -> ())
