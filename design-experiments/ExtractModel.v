Require Import RegexModel AutoModel.
Require Extraction.
Require Import ExtrOcamlBasic.
Extraction "rmodel.ml" new_mgr m_empty m_eps m_full m_sigma complement concat concat_list mk_loop range mstr
  inter union diff inter_list union_list included_in deriv str_in_re iter_derivatives is_empty_re start_char
  rid rnul rnode rcls pclass_ids lr_star lr_plus lr_opt lr_point
  compile_with_bound get_string remove_unreachable pick_alphabet compile_successors ct_eval minimize
  b_new b_mark_final b_set_default b_add_transition build_unchecked a_next a_state a_accepts.
