use aws_smt_strings::{smt_strings::*, regular_expressions::*, loop_ranges::*, automata::*, character_sets::*};
use std::panic::{catch_unwind, AssertUnwindSafe};
use std::io::Write;
#[derive(Clone, Debug)]
enum P { None, Eps, All, AllChar, Range(u32,u32), Str(Vec<u32>), Concat(Box<P>,Box<P>), Union(Box<P>,Box<P>), Inter(Box<P>,Box<P>),
  Comp(Box<P>), Diff(Box<P>,Box<P>), Star(Box<P>), Plus(Box<P>), Opt(Box<P>), Pow(Box<P>,u32), Loop(Box<P>,u32,u32), LoopInf(Box<P>,u32) }
struct Rng(u64);
impl Rng { fn next(&mut self)->u64{ self.0 ^= self.0<<13; self.0 ^= self.0>>7; self.0 ^= self.0<<17; self.0 } fn below(&mut self,n:u64)->u64{ self.next()%n } }
const AL:[u32;6]=[0,97,98,99,100,0x2FFFF];
fn gen(r:&mut Rng, d:u32)->P{
  let k = if d==0 { r.below(6) } else { r.below(17) };
  let sub=|r:&mut Rng| Box::new(gen(r,d-1));
  match k {
    0=>P::None,1=>P::Eps,2=>P::AllChar,3=>{let a=AL[r.below(6) as usize]; let b=AL[r.below(6) as usize]; if a<=b {P::Range(a,b)} else {P::Range(b,a)}},
    4=>{let n=r.below(4); P::Str((0..n).map(|_|AL[1+r.below(4) as usize]).collect())},
    5=>P::All,
    6=>P::Concat(sub(r),sub(r)),7=>P::Union(sub(r),sub(r)),8=>P::Inter(sub(r),sub(r)),9=>P::Comp(sub(r)),10=>P::Diff(sub(r),sub(r)),
    11=>P::Star(sub(r)),12=>P::Plus(sub(r)),13=>P::Opt(sub(r)),14=>P::Pow(sub(r),r.below(4) as u32),
    15=>{let i=r.below(4) as u32; let j=r.below(5) as u32; P::Loop(sub(r),i,j)}, _=>P::LoopInf(sub(r),r.below(3) as u32)
  }
}
fn toks(p:&P, out:&mut String){
  match p { P::None=>out.push_str("n "),P::Eps=>out.push_str("e "),P::All=>out.push_str("a "),P::AllChar=>out.push_str("c "),
   P::Range(a,b)=>out.push_str(&format!("r {} {} ",a,b)), P::Str(w)=>{out.push_str(&format!("s {} ",w.len())); for c in w {out.push_str(&format!("{} ",c));}},
   P::Concat(a,b)=>{out.push_str("C ");toks(a,out);toks(b,out)}, P::Union(a,b)=>{out.push_str("U ");toks(a,out);toks(b,out)},
   P::Inter(a,b)=>{out.push_str("I ");toks(a,out);toks(b,out)}, P::Diff(a,b)=>{out.push_str("D ");toks(a,out);toks(b,out)},
   P::Comp(a)=>{out.push_str("N ");toks(a,out)}, P::Star(a)=>{out.push_str("S ");toks(a,out)}, P::Plus(a)=>{out.push_str("P ");toks(a,out)},
   P::Opt(a)=>{out.push_str("O ");toks(a,out)}, P::Pow(a,k)=>{out.push_str(&format!("W {} ",k));toks(a,out)},
   P::Loop(a,i,j)=>{out.push_str(&format!("L {} {} ",i,j));toks(a,out)}, P::LoopInf(a,i)=>{out.push_str(&format!("F {} ",i));toks(a,out)} }
}
fn build(re:&mut ReManager,p:&P)->RegLan{
  match p { P::None=>re.empty(),P::Eps=>re.epsilon(),P::All=>re.full(),P::AllChar=>re.all_chars(),P::Range(a,b)=>re.range(*a,*b),
   P::Str(w)=>re.str(&SmtString::from(w.clone())),
   P::Concat(a,b)=>{let x=build(re,a);let y=build(re,b);re.concat(x,y)}, P::Union(a,b)=>{let x=build(re,a);let y=build(re,b);re.union(x,y)},
   P::Inter(a,b)=>{let x=build(re,a);let y=build(re,b);re.inter(x,y)}, P::Comp(a)=>{let x=build(re,a);re.complement(x)},
   P::Diff(a,b)=>{let x=build(re,a);let y=build(re,b);re.diff(x,y)}, P::Star(a)=>{let x=build(re,a);re.star(x)}, P::Plus(a)=>{let x=build(re,a);re.plus(x)},
   P::Opt(a)=>{let x=build(re,a);re.opt(x)}, P::Pow(a,k)=>{let x=build(re,a);re.exp(x,*k)}, P::Loop(a,i,j)=>{let x=build(re,a);re.smt_loop(x,*i,*j)},
   P::LoopInf(a,i)=>{let x=build(re,a);re.mk_loop(x,LoopRange::infinite(*i))} }
}
fn strings()->Vec<Vec<u32>>{ let al=[97u32,98,99,101]; let mut v=vec![vec![]]; let mut last:Vec<Vec<u32>>=vec![vec![]];
  for _ in 0..3 { let mut nx=vec![]; for s in &last { for c in al { let mut t=vec![c]; t.extend(s); nx.push(t);} } v.extend(nx.clone()); last=nx; } v }

fn dump_aut(a:&Automaton)->String{
  let mut parts=vec![];
  for s in a.states(){
    let trs:Vec<String>=s.char_ranges().map(|c|{ let lo=c.pick(); let hi=lo+c.size()-1; format!("{}-{}>{}",lo,hi,a.char_set_next(s,c).unwrap().id()) }).collect();
    parts.push(format!("s{}:{}:[{}]:d={}",s.id(),if s.is_final(){"F"}else{"N"},trs.join(","),match s.default_successor(){Some(d)=>d.to_string(),None=>"-".to_string()}));
  }
  format!("n={} f={} i={} ; {}",a.num_states(),a.num_final_states(),a.initial_state().id(),parts.join(" "))
}
fn table_str(a:&Automaton)->String{
  let al=a.pick_alphabet(); let t=a.compile_successors(); let mut cells=vec![];
  for s in 0..a.num_states() as u32 { for i in 0..al.len() as u32 { cells.push(t.eval(s,i).to_string()); } }
  format!("A={} T={}",al.iter().map(|c|c.to_string()).collect::<Vec<_>>().join(","),cells.join(","))
}
fn bit(b:bool)->&'static str{ if b {"1"} else {"0"} }
fn main(){
  let seed: u64 = std::env::args().nth(1).unwrap().parse().unwrap();
  let n: usize = std::env::args().nth(2).unwrap().parse().unwrap();
  let maxd: u64 = std::env::args().nth(3).unwrap().parse().unwrap();
  let mut cases=std::fs::File::create("cases.txt").unwrap(); let mut outs=std::fs::File::create("out_rs.txt").unwrap();
  let mut r=Rng(seed|1); let ws=strings();
  for _ in 0..n {
    let d=1+r.below(maxd) as u32; let p=gen(&mut r,d); let mut line=String::from("P | "); toks(&p,&mut line);
    writeln!(cases,"{}",line).unwrap();
    let res=catch_unwind(AssertUnwindSafe(||{ let re=&mut ReManager::new(); let e=build(re,&p);
      let mem:String=ws.iter().map(|w|bit(re.str_in_re(&SmtString::from(w.clone()),e))).collect();
      let nd=re.iter_derivatives(e).count(); let emp=re.is_empty_re(e);
      let sc:String=[97u32,98,99,100,101].iter().map(|&c|bit(re.start_char(e,c))).collect();
      let gs=match re.get_string(e){None=>"None".to_string(),Some(w)=>format!("Some[{}]",w.iter().map(|c|c.to_string()).collect::<Vec<_>>().join(","))};
      let mut a=re.compile(e); let da=dump_aut(&a); let ts=table_str(&a); a.minimize();
      format!("{} | {} | {} | {} | {} | {} | {} | {} | {} | {}",e.verif_dump(),bit(e.nullable),nd,mem,bit(emp),sc,gs,da,ts,dump_aut(&a)) }));
    writeln!(outs,"{}",res.unwrap_or("PANIC".to_string())).unwrap();
  }
  for _ in 0..n {
    // random DFA through the builder: all states get a default; labels are disjoint pieces of [96..104]
    let k=2+r.below(8) as usize; let mut line=format!("B | {} ",k);
    let mut spec=vec![];
    for _s in 0..k { let fin=r.below(3)==0; let dflt=r.below(k as u64) as usize;
      let mut trs=vec![]; let mut lo=96u32; while lo<=104 { let len=r.below(3) as u32; let hi=std::cmp::min(lo+len,104);
        if r.below(3)!=0 { trs.push((lo,hi,r.below(k as u64) as usize)); } lo=hi+1+r.below(2) as u32; }
      line.push_str(&format!("{} {} {} ",if fin{1}else{0},dflt,trs.len())); for (a,b,t) in &trs { line.push_str(&format!("{} {} {} ",a,b,t)); }
      spec.push((fin,dflt,trs)); }
    writeln!(cases,"{}",line).unwrap();
    let res=catch_unwind(AssertUnwindSafe(||{ let mut b=AutomatonBuilder::new(&0usize);
      for (s,(fin,dflt,trs)) in spec.iter().enumerate(){ for (lo,hi,t) in trs { b.add_transition(&s,&CharSet::range(*lo,*hi),t); } b.set_default_successor(&s,dflt); if *fin { b.mark_final(&s); } }
      let mut a=b.build_unchecked(); let da=dump_aut(&a); let ts=table_str(&a);
      let mut b2=AutomatonBuilder::new(&0usize);
      for (s,(fin,dflt,trs)) in spec.iter().enumerate(){ for (lo,hi,t) in trs { b2.add_transition(&s,&CharSet::range(*lo,*hi),t); } b2.set_default_successor(&s,dflt); if *fin { b2.mark_final(&s); } }
      let mut ru=b2.build_unchecked(); ru.remove_unreachable_states(); let dru=dump_aut(&ru);
      a.minimize(); ru.minimize();
      format!("{} | {} | {} | {} | {}",da,ts,dru,dump_aut(&a),dump_aut(&ru)) }));
    writeln!(outs,"{}",res.unwrap_or("PANIC".to_string())).unwrap();
  }
  for _ in 0..n {
    let d1=1+r.below(maxd) as u32; let p=gen(&mut r,d1); let d2=1+r.below(maxd) as u32; let q=gen(&mut r,d2);
    let mut line=String::from("Q | "); toks(&p,&mut line); toks(&q,&mut line); writeln!(cases,"{}",line).unwrap();
    let res=catch_unwind(AssertUnwindSafe(||{ let re=&mut ReManager::new(); let a=build(re,&p); let b=build(re,&q); let u=re.union(a,b);
      format!("{} {} | {}",bit(a.included_in(b)),bit(b.included_in(a)),u.verif_dump()) }));
    writeln!(outs,"{}",res.unwrap_or("PANIC".to_string())).unwrap();
  }
}
