From Coq Require Import List Arith NArith Bool Lia.
Import ListNotations.
Require Import RegexModel.
Open Scope N_scope.

Definition word := list N.
Definition lang := word -> Prop.
Definition lconc (A B : lang) : lang := fun w => exists u v, w = u ++ v /\ A u /\ B v.
Fixpoint lpow (A : lang) (n : nat) : lang :=
  match n with O => fun w => w = [] | S k => lconc A (lpow A k) end.
Definition in_lr (n : nat) (r : lr) : Prop :=
  match r with LR lo None => lo <= N.of_nat n | LR lo (Some hi) => lo <= N.of_nat n /\ N.of_nat n <= hi end.

Fixpoint L (e : re) : lang :=
  match e with
  | Node _ _ _ k =>
    match k with
    | NEmpty => fun _ => False
    | NEps => fun w => w = []
    | NRange s => fun w => exists c, w = [c] /\ cs_contains s c = true
    | NConcat a b => lconc (L a) (L b)
    | NLoop a r => fun w => exists n, in_lr n r /\ lpow (L a) n w
    | NCompl a => fun w => ~ L a w
    | NUnion l => fun w => (fix ex (l : list re) : Prop := match l with [] => False | x :: t => L x w \/ ex t end) l
    | NInter l => fun w => (fix al (l : list re) : Prop := match l with [] => True | x :: t => L x w /\ al t end) l
    end
  end.

Definition children (k : node) : list re :=
  match k with
  | NEmpty | NEps | NRange _ => []
  | NConcat a b => [a; b]
  | NLoop a _ | NCompl a => [a]
  | NUnion l | NInter l => l
  end.

Definition at_id (m : mgr) (i : nat) : option re := nth_error (id2re m) i.
Definition owned (m : mgr) (e : re) : Prop := at_id m (N.to_nat (rid e)) = Some e.

Record wf (m : mgr) : Prop := {
  wf_counter : counter m = N.of_nat (length (id2re m));
  wf_even    : Nat.Even (length (id2re m));
  wf_ids     : forall i e, at_id m i = Some e -> rid e = N.of_nat i;
  wf_tbl     : forall k e, In (k, e) (tbl m) -> key_of (rnode e) = k /\ owned m e;
  wf_lookup  : forall e, owned m e -> lookup (key_of (rnode e)) (tbl m) = Some e;
  wf_child   : forall e c, owned m e -> In c (children (rnode e)) -> owned m c /\ rid c < rid e;
  wf_attrs   : forall e, owned m e -> e = mk_node (rid e) (rnode e);
  wf_pair    : forall i x y, Nat.Even i -> at_id m i = Some x -> at_id m (S i) = Some y ->
                 forall w, L y w <-> ~ L x w
}.

(* ---- key_eqb reflects equality ---- *)
Lemma nlist_eqb_eq l1 l2 : nlist_eqb l1 l2 = true <-> l1 = l2.
Proof.
  revert l2; induction l1 as [|x t IH]; destruct l2 as [|y t2]; cbn; try (split; congruence).
  rewrite andb_true_iff, N.eqb_eq, IH. split; [intros [-> ->]; reflexivity | intros H; inversion H; auto].
Qed.
Lemma lr_eqb_eq r s : lr_eqb r s = true <-> r = s.
Proof.
  destruct r as [a [x|]], s as [b [y|]]; cbn; try (split; congruence).
  - rewrite andb_true_iff, !N.eqb_eq. split; [intros [-> ->]; reflexivity | intros H; inversion H; auto].
  - rewrite N.eqb_eq. split; [intros ->; reflexivity | intros H; inversion H; auto].
Qed.
Lemma key_eqb_eq k1 k2 : key_eqb k1 k2 = true <-> k1 = k2.
Proof.
  destruct k1 as [| |[a b]|a b|a r|a|l|l], k2 as [| |[c d]|c d|c s|c|l2|l2]; cbn;
    try (split; congruence);
    rewrite ?andb_true_iff, ?N.eqb_eq, ?lr_eqb_eq, ?nlist_eqb_eq;
    (split; [intros H; try destruct H; subst; reflexivity | intros H; inversion H; auto]).
Qed.

Lemma key_eqb_sym_false k1 k2 : key_eqb k1 k2 = false -> key_eqb k2 k1 = false.
Proof.
  intros H. destruct (key_eqb k2 k1) eqn:E; auto. apply key_eqb_eq in E; subst.
  assert (key_eqb k1 k1 = true) by (apply key_eqb_eq; reflexivity). congruence.
Qed.
Lemma lookup_in k t e : lookup k t = Some e -> In (k, e) t.
Proof.
  induction t as [|[k' e'] t IH]; cbn; [discriminate|].
  destruct (key_eqb k k') eqn:E.
  - apply key_eqb_eq in E as ->. intros H; inversion H; auto.
  - intros H; right; auto.
Qed.
Lemma lookup_none k t : lookup k t = None -> forall e, ~ In (k, e) t.
Proof.
  induction t as [|[k' e'] t IH]; cbn; [intros _ e []|].
  destruct (key_eqb k k') eqn:E; [discriminate|].
  intros H e [Heq | Hin]; [inversion Heq; subst|eapply IH; eauto].
  assert (key_eqb k k = true) by (apply key_eqb_eq; reflexivity). congruence.
Qed.

(* ---- extension ---- *)
Definition ext (m m' : mgr) : Prop :=
  (exists l, id2re m' = id2re m ++ l) /\ (forall k e, In (k, e) (tbl m) -> In (k, e) (tbl m')).
Lemma ext_refl m : ext m m.
Proof. split; [exists []; rewrite app_nil_r; reflexivity | auto]. Qed.
Lemma ext_owned m m' e : ext m m' -> owned m e -> owned m' e.
Proof.
  intros [[l Hl] _] H. unfold owned, at_id in *. rewrite Hl.
  rewrite nth_error_app1; [exact H|]. apply nth_error_Some. congruence.
Qed.

(* ---- make on a non-complement key preserves wf ---- *)
Definition not_compl (k : node) := match k with NCompl _ => False | _ => True end.
Definition k_closed (m : mgr) (k : node) := forall c, In c (children k) -> owned m c.

Lemma owned_lt m e : wf m -> owned m e -> rid e < counter m.
Proof.
  intros W H. rewrite (wf_counter m W). unfold owned, at_id in H.
  assert (N.to_nat (rid e) < length (id2re m))%nat by (apply nth_error_Some; congruence). lia.
Qed.

Lemma make_existing m k e :
  wf m -> lookup (key_of k) (tbl m) = Some e -> not_compl k -> make m k = (m, e).
Proof.
  intros W Hl Hk. unfold make, store_make. rewrite Hl.
  assert (Ho : owned m e) by (apply lookup_in in Hl; apply (wf_tbl m W) in Hl; tauto).
  pose proof (owned_lt m e W Ho) as Hlt.
  destruct k; try contradiction; cbn; (destruct (rid e =? counter m) eqn:E; [apply N.eqb_eq in E; lia | reflexivity]).
Qed.


Lemma at_id_app_old m l i e : at_id m i = Some e -> nth_error (id2re m ++ l) i = Some e.
Proof. intros H. unfold at_id in H. rewrite nth_error_app1; auto. apply nth_error_Some; congruence. Qed.

Lemma nth_error_app_cases {A} (l l2 : list A) i x :
  nth_error (l ++ l2) i = Some x ->
  (i < length l)%nat /\ nth_error l i = Some x \/ (length l <= i)%nat /\ nth_error l2 (i - length l) = Some x.
Proof.
  intros H. destruct (Nat.lt_ge_cases i (length l)) as [Hlt|Hge].
  - left. rewrite nth_error_app1 in H; auto.
  - right. rewrite nth_error_app2 in H; auto.
Qed.

Lemma no_compl_key_of_counter m n :
  wf m -> n = counter m -> lookup (KCompl n) (tbl m) = None.
Proof.
  intros W ->. destruct (lookup (KCompl (counter m)) (tbl m)) as [e|] eqn:Hl; [exfalso|reflexivity].
  apply lookup_in in Hl. apply (wf_tbl m W) in Hl as [Hkey Ho].
  destruct e as [i nu cl k]; cbn in Hkey. destruct k; cbn in Hkey; try discriminate.
  inversion Hkey as [Hid].
  destruct (wf_child m W _ a Ho) as [Hoa Hlt]; [cbn; auto|].
  pose proof (owned_lt m a W Hoa). lia.
Qed.

Lemma lookup_cons_eq k e t : lookup k ((k, e) :: t) = Some e.
Proof. cbn. assert (key_eqb k k = true) by (apply key_eqb_eq; reflexivity). rewrite H. reflexivity. Qed.
Lemma lookup_cons_neq k k' e t : key_eqb k k' = false -> lookup k ((k', e) :: t) = lookup k t.
Proof. intros H. cbn. rewrite H. reflexivity. Qed.

Lemma make_unfold m k : not_compl k -> make m k =
  let i := counter m in
  let '(m1, x) := store_make m k in
  if rid x =? i then let '(m2, y) := store_make m1 (NCompl x) in (push_id2re m2 [x; y], x) else (m1, x).
Proof. destruct k; intros H; try contradiction; reflexivity. Qed.

Theorem make_wf m k m' t :
  wf m -> not_compl k -> k_closed m k -> make m k = (m', t) ->
  wf m' /\ ext m m' /\ owned m' t /\ key_of (rnode t) = key_of k.
Proof.
  intros W Hk Hc Hmk.
  destruct (lookup (key_of k) (tbl m)) as [e|] eqn:Hl.
  - rewrite (make_existing m k e W Hl Hk) in Hmk. inversion Hmk; subst.
    apply lookup_in in Hl. apply (wf_tbl _ W) in Hl as [Hkey Ho].
    split; [exact W|]. split; [apply ext_refl|]. split; [exact Ho | exact Hkey].
  - (* new term: x at id n, its complement at n+1 *)
    set (n := counter m) in *.
    set (x := mk_node n k).
    set (y := mk_node (n + 1) (NCompl x)).
    assert (Hnk : key_of (NCompl x) = KCompl n) by reflexivity.
    assert (Hkx : key_eqb (KCompl n) (key_of k) = false).
    { destruct (key_eqb (KCompl n) (key_of k)) eqn:E; auto. apply key_eqb_eq in E.
      destruct k; cbn in E; try discriminate; contradiction. }
    assert (Hmk' : m' = {| tbl := (KCompl n, y) :: (key_of k, x) :: tbl m; counter := n + 1 + 1;
                          id2re := id2re m ++ [x; y]; cache := cache m |} /\ t = x).
    { rewrite (make_unfold m k Hk) in Hmk. unfold store_make at 1 in Hmk. rewrite Hl in Hmk.
      fold n in Hmk. fold x in Hmk. cbv zeta in Hmk.
      replace (rid x =? n) with true in Hmk by (symmetry; apply N.eqb_eq; reflexivity).
      unfold store_make in Hmk. cbn [tbl counter id2re cache] in Hmk.
      rewrite Hnk in Hmk. cbn [lookup] in Hmk. rewrite Hkx in Hmk.
      rewrite (no_compl_key_of_counter m n W eq_refl) in Hmk.
      cbn [push_id2re tbl counter id2re cache] in Hmk. fold y in Hmk.
      inversion Hmk; subst; split; reflexivity. }
    destruct Hmk' as [-> ->].
    pose proof (wf_counter m W) as Hcnt. fold n in Hcnt.
    assert (Hlen : N.to_nat n = length (id2re m)) by lia.
    assert (Hox : owned {| tbl := (KCompl n, y) :: (key_of k, x) :: tbl m; counter := n + 1 + 1;
                          id2re := id2re m ++ [x; y]; cache := cache m |} x).
    { unfold owned, at_id; cbn. rewrite Hlen, nth_error_app2, Nat.sub_diag; auto. }
    assert (Hoy : owned {| tbl := (KCompl n, y) :: (key_of k, x) :: tbl m; counter := n + 1 + 1;
                          id2re := id2re m ++ [x; y]; cache := cache m |} y).
    { unfold owned, at_id; cbn. replace (N.to_nat (n + 1)) with (S (length (id2re m))) by lia.
      rewrite nth_error_app2 by lia. replace (S (length (id2re m)) - length (id2re m))%nat with 1%nat by lia. reflexivity. }
    assert (Hext : ext m {| tbl := (KCompl n, y) :: (key_of k, x) :: tbl m; counter := n + 1 + 1;
                          id2re := id2re m ++ [x; y]; cache := cache m |}).
    { split; [exists [x; y]; reflexivity | intros k0 e0 H; cbn; auto]. }
    split; [|split; [exact Hext|split; [exact Hox|reflexivity]]].
    constructor; cbn [tbl counter id2re cache].
    + rewrite app_length; cbn. lia.
    + rewrite app_length; cbn. destruct (wf_even m W) as [q Hq]. exists (S q). lia.
    + intros i e H. unfold at_id in H; cbn in H.
      apply nth_error_app_cases in H as [[Hlt H] | [Hge H]].
      * apply (wf_ids m W); exact H.
      * destruct (i - length (id2re m))%nat as [|[|j]] eqn:E; cbn in H.
        -- inversion H; subst; cbn. lia.
        -- inversion H; subst; cbn. lia.
        -- destruct j; discriminate.
    + intros k0 e0 [H | [H | H]].
      * inversion H; subst. split; [reflexivity | exact Hoy].
      * inversion H; subst. split; [reflexivity | exact Hox].
      * apply (wf_tbl m W) in H as [H1 H2]. split; auto. eapply ext_owned; eauto.
    + intros e He. unfold owned, at_id in He; cbn in He.
      apply nth_error_app_cases in He as [[Hlt He] | [Hge He]].
      * (* old term *)
        assert (Ho : owned m e) by exact He.
        pose proof (wf_lookup m W e Ho) as Hlk. cbn.
        destruct (key_eqb (key_of (rnode e)) (KCompl n)) eqn:E1.
        { apply key_eqb_eq in E1. rewrite E1 in Hlk.
          rewrite (no_compl_key_of_counter m n W eq_refl) in Hlk. discriminate. }
        destruct (key_eqb (key_of (rnode e)) (key_of k)) eqn:E2.
        { apply key_eqb_eq in E2. rewrite E2 in Hlk. congruence. }
        exact Hlk.
      * destruct (N.to_nat (rid e) - length (id2re m))%nat as [|[|j]] eqn:E; cbn in He.
        -- inversion He; subst e. replace (rnode x) with k by reflexivity.
           rewrite lookup_cons_neq by (apply key_eqb_sym_false; exact Hkx). apply lookup_cons_eq.
        -- inversion He; subst e. replace (key_of (rnode y)) with (KCompl n) by reflexivity.
           apply lookup_cons_eq.
        -- destruct j; discriminate.
    + (* children *)
      intros e c He Hin. unfold owned, at_id in He; cbn in He.
      apply nth_error_app_cases in He as [[Hlt He] | [Hge He]].
      * destruct (wf_child m W e c He Hin) as [H1 H2]. split; auto. eapply ext_owned; eauto.
      * destruct (N.to_nat (rid e) - length (id2re m))%nat as [|[|j]] eqn:E; cbn in He.
        -- inversion He; subst e. replace (rnode x) with k in Hin by reflexivity.
           pose proof (Hc c Hin) as Hoc. split; [eapply ext_owned; eauto|].
           pose proof (owned_lt m c W Hoc). cbn. fold n in H. lia.
        -- inversion He; subst e. cbn in Hin. destruct Hin as [<- | []]. split; [exact Hox | cbn; lia].
        -- destruct j; discriminate.
    + (* attributes *)
      intros e He. unfold owned, at_id in He; cbn in He.
      apply nth_error_app_cases in He as [[Hlt He] | [Hge He]].
      * apply (wf_attrs m W); exact He.
      * destruct (N.to_nat (rid e) - length (id2re m))%nat as [|[|j]] eqn:E; cbn in He.
        -- inversion He; subst e. reflexivity.
        -- inversion He; subst e. reflexivity.
        -- destruct j; discriminate.
    + (* complement pairing *)
      intros i a b Hev Ha Hb w. unfold at_id in Ha, Hb; cbn [id2re] in Ha, Hb.
      apply nth_error_app_cases in Ha as [[Hlt Ha] | [Hge Ha]].
      * assert (Hlt' : (S i < length (id2re m))%nat).
        { destruct (wf_even m W) as [q Hq]. destruct Hev as [p Hp]. lia. }
        rewrite nth_error_app1 in Hb by exact Hlt'.
        apply (wf_pair m W i a b Hev Ha Hb).
      * assert (Hi : i = length (id2re m)).
        { destruct (i - length (id2re m))%nat as [|[|j]] eqn:E; cbn in Ha.
          - lia.
          - exfalso. destruct (wf_even m W) as [q Hq]. destruct Hev as [p Hp]. lia.
          - destruct j; discriminate. }
        subst i. rewrite Nat.sub_diag in Ha. cbn in Ha. inversion Ha; subst a.
        rewrite nth_error_app2 in Hb by lia.
        replace (S (length (id2re m)) - length (id2re m))%nat with 1%nat in Hb by lia.
        cbn in Hb. inversion Hb; subst b. cbn. tauto.
Qed.
Print Assumptions make_wf.
