(* Scratch experiment (design phase): executable model of automata.rs, compact_tables.rs,
   minimizer.rs, partitions.rs, fast_sets.rs, labeled_queues.rs.  No proofs. *)
From Coq Require Import List Arith NArith Bool Lia.
Import ListNotations.
Require Import RegexModel.
Open Scope nat_scope.

Fixpoint upd {A} (l : list A) (i : nat) (x : A) : list A :=
  match l, i with
  | [], _ => []
  | _ :: t, O => x :: t
  | y :: t, S k => y :: upd t k x
  end.
Definition swap {A} (d : A) (l : list A) (i j : nat) : list A :=
  let a := nth i l d in let b := nth j l d in upd (upd l i b) j a.

(* ================= builder ================= *)
Record sic := { s_final : bool; s_default : option nat; s_trans : list (cs * nat) }.
Definition sic_new := {| s_final := false; s_default := None; s_trans := [] |}.
Record builder := { id_map : list (N * nat); bstates : list sic }.
Fixpoint find_key (k : N) (l : list (N * nat)) : option nat :=
  match l with [] => None | (k', i) :: t => if N.eqb k k' then Some i else find_key k t end.
Definition get_state_id (b : builder) (k : N) : builder * nat :=
  match find_key k (id_map b) with
  | Some i => (b, i)
  | None => let i := length (bstates b) in
            ({| id_map := id_map b ++ [(k, i)]; bstates := bstates b ++ [sic_new] |}, i)
  end.
Definition b_new (k : N) : builder := fst (get_state_id {| id_map := []; bstates := [] |} k).
Definition upd_state (b : builder) (i : nat) (f : sic -> sic) : builder :=
  {| id_map := id_map b; bstates := upd (bstates b) i (f (nth i (bstates b) sic_new)) |}.
Definition b_mark_final (b : builder) (k : N) :=
  let '(b1, i) := get_state_id b k in
  upd_state b1 i (fun s => {| s_final := true; s_default := s_default s; s_trans := s_trans s |}).
Definition b_set_default (b : builder) (k n : N) :=
  let '(b1, i) := get_state_id b k in let '(b2, j) := get_state_id b1 n in
  upd_state b2 i (fun s => {| s_final := s_final s; s_default := Some j; s_trans := s_trans s |}).
Definition b_add_transition (b : builder) (k : N) (set : cs) (n : N) :=
  let '(b1, i) := get_state_id b k in let '(b2, j) := get_state_id b1 n in
  upd_state b2 i (fun s => {| s_final := s_final s; s_default := s_default s; s_trans := s_trans s ++ [(set, j)] |}).

Fixpoint maj_go (l : list (cs * nat)) (maj k : nat) : nat :=
  match l with
  | [] => maj
  | (_, x) :: t => if Nat.eqb k 0 then maj_go t x 1
                   else if Nat.eqb x maj then maj_go t maj (S k) else maj_go t maj (k - 1)
  end.
Definition count_target (l : list (cs * nat)) (m : nat) := length (filter (fun x => Nat.eqb (snd x) m) l).
Definition cleanup (s : sic) : sic :=
  let d := match s_default s, s_trans s with
           | None, (_, x0) :: t =>
               let m := maj_go t x0 1 in
               if Nat.leb (length (s_trans s) / 2) (count_target (s_trans s) m) then Some m else None
           | d, _ => d
           end in
  let tr := match d with Some i => filter (fun x => negb (Nat.eqb (snd x) i)) (s_trans s) | None => s_trans s end in
  {| s_final := s_final s; s_default := d; s_trans := tr |}.

(* CharPartition::try_from_iter *)
Fixpoint insert_cs (x : cs) (l : list cs) : list cs :=
  match l with [] => [x] | y :: t => if N.ltb (fst x) (fst y) then x :: l else y :: insert_cs x t end.
Definition sort_cs (l : list cs) := fold_left (fun acc x => insert_cs x acc) l [].   (* stable *)
Fixpoint tfi_go (prev_end w : N) (l : list cs) : option N :=
  match l with
  | [] => Some w
  | c :: t => if N.leb (fst c) prev_end then None
              else tfi_go (snd c) (if N.leb (fst c) w then (snd c + 1)%N else w) t
  end.
Definition try_from_iter (l : list cs) : option part :=
  match sort_cs l with
  | [] => Some {| ivs := []; wit := 0%N |}
  | c0 :: t =>
    let w0 := if N.leb (fst c0) 0 then (snd c0 + 1)%N else 0%N in
    match tfi_go (snd c0) w0 t with
    | Some w => Some {| ivs := c0 :: t; wit := w |}
    | None => None
    end
  end.

Record astate := { a_id : nat; a_final : bool; a_classes : part; a_succ : list nat; a_default : option nat }.
Record automaton := { num_states : nat; num_final : nat; initial : nat; astates : list astate }.
Definition make_successor (s : sic) (p : part) : option (list nat) :=
  fold_left (fun acc tr =>
               match acc with
               | None => None
               | Some r => match pclass_of_char p (fst (fst tr)) with
                           | CInt i => Some (upd r i (snd tr))
                           | CComp => None
                           end
               end) (s_trans s) (Some (repeat 0 (length (ivs p)))).
Fixpoint build_states (l : list sic) (i : nat) : option (list astate) :=
  match l with
  | [] => Some []
  | s :: t =>
    let s := cleanup s in
    match try_from_iter (map fst (s_trans s)) with
    | None => None
    | Some p =>
      match make_successor s p, build_states t (S i) with
      | Some suc, Some rest =>
          Some ({| a_id := i; a_final := s_final s; a_classes := p; a_succ := suc; a_default := s_default s |} :: rest)
      | _, _ => None
      end
    end
  end.
Definition build_unchecked (b : builder) : option automaton :=
  match build_states (bstates b) 0 with
  | Some sts => Some {| num_states := length sts; num_final := length (filter a_final sts); initial := 0; astates := sts |}
  | None => None
  end.

Definition dstate := {| a_id := 0; a_final := false; a_classes := pnew; a_succ := []; a_default := None |}.
Definition a_state (a : automaton) (i : nat) := nth i (astates a) dstate.
Definition a_next (a : automaton) (s : astate) (c : N) : option nat :=
  match pclass_of_char (a_classes s) c with
  | CInt i => nth_error (a_succ s) i
  | CComp => a_default s
  end.
Fixpoint a_str_next (a : automaton) (s : nat) (w : list N) : option nat :=
  match w with [] => Some s | c :: t => match a_next a (a_state a s) c with Some n => a_str_next a n t | None => None end end.
Definition a_accepts (a : automaton) (w : list N) : option bool :=
  option_map (fun s => a_final (a_state a s)) (a_str_next a (initial a) w).

(* ================= compile ================= *)
Fixpoint compile_ranges (m : mgr) (e : re) (sets : list cs) (i : nat) (queue seen : list re) (b : builder)
  : option (mgr * list re * list re * builder) :=
  match sets with
  | [] => Some (m, queue, seen, b)
  | set :: t =>
    match pclass_of_set (rcls e) set with
    | None => None
    | Some cid =>
      match cached_deriv e m cid with
      | None => None
      | Some (m1, d) =>
        let '(q1, s1) := if existsb (re_eqb d) seen then (queue, seen) else (queue ++ [d], d :: seen) in
        compile_ranges m1 e t (S i) q1 s1 (b_add_transition b (rid e) set (rid d))
      end
    end
  end.
Fixpoint compile_go (fuel : nat) (m : mgr) (queue seen : list re) (b : builder) (count maxs : nat)
  : option (mgr * option builder) :=
  match fuel with
  | O => None
  | S f =>
    match queue with
    | [] => Some (m, Some b)
    | e :: q =>
      if Nat.eqb count maxs then Some (m, None) else
      match compile_ranges m e (ivs (rcls e)) 0 q seen b with
      | None => None
      | Some (m1, q1, s1, b1) =>
        let r2 := if pempty_complement (rcls e) then Some (m1, q1, s1, b1)
                  else match cached_deriv e m1 CComp with
                       | None => None
                       | Some (m2, d) =>
                         let '(q2, s2) := if existsb (re_eqb d) s1 then (q1, s1) else (q1 ++ [d], d :: s1) in
                         Some (m2, q2, s2, b_set_default b1 (rid e) (rid d))
                       end in
        match r2 with
        | None => None
        | Some (m2, q2, s2, b2) =>
          let b3 := if rnul e then b_mark_final b2 (rid e) else b2 in
          compile_go f m2 q2 s2 b3 (S count) maxs
        end
      end
    end
  end.
Definition compile_with_bound (fuel : nat) (m : mgr) (e : re) (maxs : option nat) : option (mgr * option automaton) :=
  match maxs with
  | Some 0 => Some (m, None)
  | _ =>
    let mx := match maxs with Some k => k | None => S fuel end in
    match compile_go fuel m [e] [e] (b_new (rid e)) 0 mx with
    | None => None
    | Some (m1, None) => Some (m1, None)
    | Some (m1, Some b) => match build_unchecked b with Some a => Some (m1, Some a) | None => None end
    end
  end.

(* ================= get_string (LabeledQueue) ================= *)
Fixpoint lq_find (i : N) (l : list (re * option (classid * re))) : option (option (classid * re)) :=
  match l with [] => None | (n, e) :: t => if N.eqb (rid n) i then Some e else lq_find i t end.
Fixpoint gs_push (m : mgr) (r : re) (cids : list classid) (queue : list re) (map : list (re * option (classid * re)))
  : option (mgr * list re * list (re * option (classid * re))) :=
  match cids with
  | [] => Some (m, queue, map)
  | cid :: t =>
    match cached_deriv r m cid with
    | None => None
    | Some (m1, d) =>
      match lq_find (rid d) map with
      | Some _ => gs_push m1 r t queue map
      | None => gs_push m1 r t (queue ++ [d]) (map ++ [(d, Some (cid, r))])
      end
    end
  end.
Fixpoint path_go (fuel : nat) (map : list (re * option (classid * re))) (edge : option (classid * re)) (acc : list (re * classid))
  : option (list (re * classid)) :=
  match fuel with
  | O => None
  | S f =>
    match edge with
    | None => Some acc
    | Some (lbl, node) =>
      match lq_find (rid node) map with
      | None => None
      | Some e' => path_go f map e' ((node, lbl) :: acc)
      end
    end
  end.
Fixpoint gs_go (fuel : nat) (m : mgr) (queue : list re) (map : list (re * option (classid * re)))
  : option (mgr * option (list (re * classid))) :=
  match fuel with
  | O => None
  | S f =>
    match queue with
    | [] => Some (m, None)
    | r :: q =>
      if rnul r then
        match lq_find (rid r) map with
        | Some e => match path_go (S (length map)) map e [] with Some p => Some (m, Some p) | None => None end
        | None => None
        end
      else match gs_push m r (pclass_ids (rcls r)) q map with
           | None => None
           | Some (m1, q1, map1) => gs_go f m1 q1 map1
           end
    end
  end.
Definition get_string (fuel : nat) (m : mgr) (e : re) : option (mgr * option (list N)) :=
  match gs_go fuel m [e] [(e, None)] with
  | None => None
  | Some (m1, None) => Some (m1, None)
  | Some (m1, Some p) =>
    let chars := map (fun x => ppick (rcls (fst x)) (snd x)) p in
    if forallb (fun o => match o with Some _ => true | None => false end) chars
    then Some (m1, Some (map (fun o => match o with Some c => c | None => 0%N end) chars))
    else None
  end.

(* ================= reachability, alphabet, compact table ================= *)
Definition edges (s : astate) : list nat := a_succ s ++ match a_default s with Some d => [d] | None => [] end.
Fixpoint reach_go (fuel : nat) (a : automaton) (queue seen out : list nat) : list nat :=
  match fuel with
  | O => out
  | S f =>
    match queue with
    | [] => out
    | i :: q =>
      let '(q1, s1) := fold_left (fun qs n => if existsb (Nat.eqb n) (snd qs) then qs else (fst qs ++ [n], n :: snd qs))
                                 (edges (a_state a i)) (q, seen) in
      reach_go f a q1 s1 (out ++ [i])
    end
  end.
Fixpoint insert_nat (x : nat) (l : list nat) := match l with [] => [x] | y :: t => if Nat.leb x y then x :: l else y :: insert_nat x t end.
Definition sort_nat (l : list nat) := fold_right insert_nat [] l.
Definition remap_state (new_id : list nat) (s : astate) : astate :=
  {| a_id := nth (a_id s) new_id 0; a_final := a_final s; a_classes := a_classes s;
     a_succ := map (fun x => nth x new_id 0) (a_succ s);
     a_default := option_map (fun x => nth x new_id 0) (a_default s) |}.
Definition remap_nodes (a : automaton) (new_id old_id : list nat) : automaton :=
  let sts := map (fun o => remap_state new_id (a_state a o)) old_id in
  {| num_states := length old_id; num_final := length (filter a_final sts);
     initial := nth (initial a) new_id 0; astates := sts |}.
Definition remove_unreachable (a : automaton) : automaton :=
  let reachable := sort_nat (reach_go (S (num_states a)) a [initial a] [initial a] []) in
  let new_id := fold_left (fun acc ix => upd acc (snd ix) (fst ix)) (combine (seq 0 (length reachable)) reachable)
                          (repeat 0 (num_states a)) in
  remap_nodes a new_id reachable.

Definition combined_partition (a : automaton) : part :=
  fold_left (fun acc s => pmerge acc (a_classes s)) (astates a) pnew.
Definition picks (p : part) : list N := map fst (ivs p) ++ (if pempty_complement p then [] else [wit p]).
Definition pick_alphabet (a : automaton) := picks (combined_partition a).

Record ctable := { ct_n : nat; ct_alpha : nat; ct_default : list nat; ct_base : list nat; ct_value : list nat; ct_check : list nat }.
Definition base_conflicts (t : ctable) (b : nat) (succ : list (nat * nat)) :=
  existsb (fun cv => negb (Nat.eqb (nth (b + fst cv) (ct_check t) (ct_n t)) (ct_n t))) succ.
Definition ct_resize (t : ctable) (sz : nat) : ctable :=
  {| ct_n := ct_n t; ct_alpha := ct_alpha t; ct_default := ct_default t; ct_base := ct_base t;
     ct_value := ct_value t ++ repeat 0 (sz - length (ct_value t));
     ct_check := ct_check t ++ repeat (ct_n t) (sz - length (ct_check t)) |}.
Fixpoint find_base (fuel : nat) (t : ctable) (b : nat) (succ : list (nat * nat)) : ctable * nat :=
  match fuel with
  | O => (t, b)
  | S f =>
    if base_conflicts t b succ then
      let b := S b in
      let t := if Nat.ltb (length (ct_value t)) (b + ct_alpha t) then ct_resize t (2 * length (ct_value t)) else t in
      find_base f t b succ
    else (t, b)
  end.
Definition set_successors (t : ctable) (i : nat) (succ : list (nat * nat)) : ctable :=
  let '(t, b) := find_base (S (length (ct_value t)) + ct_alpha t) t 0 succ in
  let '(v, c) := fold_left (fun vc cv => (upd (fst vc) (b + fst cv) (snd cv), upd (snd vc) (b + fst cv) i))
                           succ (ct_value t, ct_check t) in
  {| ct_n := ct_n t; ct_alpha := ct_alpha t; ct_default := ct_default t; ct_base := upd (ct_base t) i b;
     ct_value := v; ct_check := c |}.
Definition compile_successors (a : automaton) : option ctable :=
  let alphabet := pick_alphabet a in
  let n := num_states a in let m := length alphabet in
  let t0 := {| ct_n := n; ct_alpha := m; ct_default := repeat 0 n; ct_base := repeat 0 n;
               ct_value := repeat 0 m; ct_check := repeat n m |} in
  let t := fold_left (fun (ot : option ctable) s =>
             match ot with
             | None => None
             | Some t =>
               let t := match a_default s with
                        | Some d => {| ct_n := ct_n t; ct_alpha := ct_alpha t; ct_default := upd (ct_default t) (a_id s) d;
                                       ct_base := ct_base t; ct_value := ct_value t; ct_check := ct_check t |}
                        | None => t end in
               let cand := filter (fun ic => negb (match a_default s with Some _ => true | None => false end
                                                  && classid_eqb (pclass_of_char (a_classes s) (snd ic)) CComp))
                                  (combine (seq 0 m) alphabet) in
               let succ := map (fun ic => (fst ic, a_next a s (snd ic))) cand in
               if forallb (fun x => match snd x with Some _ => true | None => false end) succ
               then Some (set_successors t (a_id s) (map (fun x => (fst x, match snd x with Some v => v | None => 0 end)) succ))
               else None
             end) (astates a) (Some t0) in
  match t with
  | None => None
  | Some t =>
    let mx := fold_left Nat.max (ct_base t) 0 + m in
    Some {| ct_n := ct_n t; ct_alpha := ct_alpha t; ct_default := ct_default t; ct_base := ct_base t;
            ct_value := firstn mx (ct_value t); ct_check := firstn mx (ct_check t) |}
  end.
Definition ct_eval (t : ctable) (s c : nat) : nat :=
  let k := nth s (ct_base t) 0 + c in
  if Nat.eqb (nth k (ct_check t) (ct_n t)) s then nth k (ct_value t) 0 else nth s (ct_default t) 0.

(* ================= partitions (partitions.rs) ================= *)
Record bpart := { bp_block : list (nat * nat); bp_seg : list nat }.
Definition bp_new (n : nat) : bpart :=
  {| bp_block := if Nat.eqb n 0 then [(0,0)] else [(0,0); (0,n)]; bp_seg := seq 0 n |}.
Definition bp_num_blocks (p : bpart) := length (bp_block p).
Definition bp_block_size (p : bpart) (i : nat) := let '(s, e) := nth i (bp_block p) (0,0) in e - s.
Definition bp_elements (p : bpart) (i : nat) : list nat := let '(s, e) := nth i (bp_block p) (0,0) in firstn (e - s) (skipn s (bp_seg p)).
Fixpoint refine_scan (pr : nat -> bool) (seg : list nat) (start : nat) (len : nat) (k j : nat) : list nat * nat :=
  (* k runs over 0..len; models the swap loop *)
  match len with
  | O => (seg, j)
  | S l => let x := nth (start + k) seg 0 in
           if pr x then
             let seg' := if Nat.ltb j k then swap 0 seg (start + k) (start + j) else seg in
             refine_scan pr seg' start l (S k) (S j)
           else refine_scan pr seg start l (S k) j
  end.
Definition bp_refine (p : bpart) (i : nat) (pr : nat -> bool) : bpart * (nat * nat) :=
  let '(s, e) := nth i (bp_block p) (0,0) in
  let '(seg, j) := refine_scan pr (bp_seg p) s (e - s) 0 0 in
  if Nat.eqb j 0 then ({| bp_block := bp_block p; bp_seg := seg |}, (0, i))
  else if Nat.eqb j (e - s) then ({| bp_block := bp_block p; bp_seg := seg |}, (i, 0))
  else let k := length (bp_block p) in
       ({| bp_block := upd (bp_block p) i (s, s + j) ++ [(s + j, e)]; bp_seg := seg |}, (i, k)).
Record fpart := { fp_base : bpart; fp_bid : list nat }.
Definition fp_new (n : nat) := {| fp_base := bp_new n; fp_bid := repeat 1 n |}.
Definition fp_block_id (p : fpart) (x : nat) := nth x (fp_bid p) 0.
Definition fp_refine (p : fpart) (i : nat) (pr : nat -> bool) : fpart * (nat * nat) :=
  let '(b, (b1, b2)) := bp_refine (fp_base p) i pr in
  if negb (Nat.eqb b1 0) && negb (Nat.eqb b2 0) then
    ({| fp_base := b; fp_bid := fold_left (fun acc x => upd acc x b2) (bp_elements b b2) (fp_bid p) |}, (b1, b2))
  else ({| fp_base := b; fp_bid := fp_bid p |}, (b1, b2)).

(* ================= minimizer ================= *)
Record slist := { sl_active : nat; sl_list : list (nat * nat) }.   (* (char, class) *)
Definition sl_empty := {| sl_active := 0; sl_list := [] |}.
Definition sl_add (l : slist) (c cls : nat) (active : bool) : slist :=
  let i := length (sl_list l) in
  let lst := sl_list l ++ [(c, cls)] in
  if active then {| sl_active := S (sl_active l);
                    sl_list := if Nat.ltb (sl_active l) i then swap (0,0) lst (sl_active l) i else lst |}
  else {| sl_active := sl_active l; sl_list := lst |}.
Record mini := { mn_main : fpart; mn_pred : list bpart; mn_split : list slist; mn_active_block : nat }.
Definition add_splitter (sp : list slist) (b c cls : nat) (active : bool) : list slist :=
  let sp := if Nat.leb (length sp) b then sp ++ repeat sl_empty (S b - length sp) else sp in
  upd sp b (sl_add (nth b sp sl_empty) c cls active).

Section Minimizer.
  Variable delta : nat -> nat -> nat.
  Variable is_final : nat -> bool.

  Definition update_splitters (m : mini) (i j : nat) : mini :=
    let old := nth i (mn_split m) sl_empty in
    let sp0 := upd (mn_split m) i sl_empty in
    let items := combine (seq 0 (length (sl_list old))) (sl_list old) in
    let '(pred, sp) :=
      fold_left (fun (ps : list bpart * list slist) (it : nat * (nat * nat)) =>
                   let '(idx, (c, cls)) := it in
                   let active := Nat.ltb idx (sl_active old) in
                   let p := nth c (fst ps) (bp_new 0) in
                   let '(p', (class1, class2)) :=
                     bp_refine p cls (fun x => Nat.eqb (fp_block_id (mn_main m) (delta x c)) i) in
                   let '(a1, a2) := if active then (true, true)
                                    else if Nat.leb (bp_block_size p' class1) (bp_block_size p' class2) then (true, false)
                                    else (false, true) in
                   let sp1 := if Nat.eqb class1 0 then snd ps else add_splitter (snd ps) i c class1 a1 in
                   let sp2 := if Nat.eqb class2 0 then sp1 else add_splitter sp1 j c class2 a2 in
                   (upd (fst ps) c p', sp2))
                items (mn_pred m, sp0) in
    {| mn_main := mn_main m; mn_pred := pred; mn_split := sp; mn_active_block := mn_active_block m |}.

  Definition mini_new (n alpha : nat) : mini :=
    let sp := fold_left (fun sp c => add_splitter sp 1 c 1 false) (seq 0 alpha) [] in
    let m := {| mn_main := fp_new n; mn_pred := repeat (bp_new n) alpha; mn_split := sp; mn_active_block := 0 |} in
    let '(main', (i, j)) := fp_refine (mn_main m) 1 is_final in
    let m := {| mn_main := main'; mn_pred := mn_pred m; mn_split := mn_split m; mn_active_block := 0 |} in
    if negb (Nat.eqb i 0) && negb (Nat.eqb j 0) then update_splitters m i j else m.

  (* FastSet as insertion-ordered list with swap-remove *)
  Definition fs_insert (s : list nat) (x : nat) := if existsb (Nat.eqb x) s then s else s ++ [x].
  Fixpoint index_of (x : nat) (l : list nat) (k : nat) : option nat :=
    match l with [] => None | y :: t => if Nat.eqb x y then Some k else index_of x t (S k) end.
  Definition fs_remove (s : list nat) (x : nat) : list nat :=
    match index_of x s 0 with
    | None => s
    | Some i => let last := nth (length s - 1) s 0 in removelast (upd s i last)
    end.

  Definition refine_block_with_splitter (m : mini) (schar sblock b : nat) : mini :=
    let main := mn_main m in
    let '(main', (i, j)) := fp_refine main b (fun y => Nat.eqb (fp_block_id main (delta y schar)) sblock) in
    let m' := {| mn_main := main'; mn_pred := mn_pred m; mn_split := mn_split m; mn_active_block := mn_active_block m |} in
    if Nat.eqb j 0 then m' else update_splitters m' i j.

  Definition refine_with_splitter (m : mini) (sblock schar sclass : nat) : mini :=
    let p := nth schar (mn_pred m) (bp_new 0) in
    let set := fold_left (fun s x => let b := fp_block_id (mn_main m) x in
                                      if Nat.ltb 1 (bp_block_size (fp_base (mn_main m)) b) then fs_insert s b else s)
                         (bp_elements p sclass) [] in
    let self_refine := existsb (Nat.eqb sblock) set in
    let set := if self_refine then fs_remove set sblock else set in
    let m := fold_left (fun m b => refine_block_with_splitter m schar sblock b) set m in
    if self_refine then refine_block_with_splitter m schar sblock sblock else m.

  Definition pick_splitter (m : mini) : option (mini * (nat * nat * nat)) :=
    let l := mn_split m in
    let has b := Nat.ltb 0 (sl_active (nth b l sl_empty)) in
    let ob := if has (mn_active_block m) then Some (mn_active_block m)
              else (fix scan (bs : list nat) := match bs with [] => None | b :: t => if has b then Some b else scan t end)
                     (seq 0 (length l)) in
    match ob with
    | None => None
    | Some b =>
      let sl := nth b l sl_empty in
      let na := sl_active sl - 1 in
      let '(c, cls) := nth na (sl_list sl) (0,0) in
      Some ({| mn_main := mn_main m; mn_pred := mn_pred m;
               mn_split := upd l b {| sl_active := na; sl_list := sl_list sl |}; mn_active_block := b |},
            (b, c, cls))
    end.

  Fixpoint refine (fuel : nat) (n : nat) (m : mini) : option mini :=
    match fuel with
    | O => None
    | S f =>
      if Nat.ltb (bp_num_blocks (fp_base (mn_main m)) - 1) n then
        match pick_splitter m with
        | Some (m', (b, c, cls)) => refine f n (refine_with_splitter m' b c cls)
        | None => Some m
        end
      else Some m
    end.
End Minimizer.

Definition minimize (a : automaton) : option automaton :=
  match compile_successors a with
  | None => None
  | Some t =>
    let n := num_states a in let alpha := ct_alpha t in
    let delta := ct_eval t in
    let isf := fun i => a_final (a_state a i) in
    match refine delta (4 * n * alpha + 16) n (mini_new delta isf n alpha) with
    | None => None
    | Some m =>
      let p := mn_main m in
      let idx := bp_num_blocks (fp_base p) - 1 in
      if Nat.ltb idx n then
        let new_id := map (fun s => fp_block_id p s - 1) (seq 0 n) in
        let old_id := map (fun b => nth (fst (nth b (bp_block (fp_base p)) (0,0))) (bp_seg (fp_base p)) 0) (seq 1 idx) in
        Some (remap_nodes a new_id old_id)
      else Some a
    end
  end.
