From Coq Require Import List NArith Bool Lia.
Import ListNotations.
Open Scope N_scope.

Definition MAXC : N := 196607.
Definition iv := (N * N)%type.
Record part := { ivs : list iv; wit : N }.
Definition pnew : part := {| ivs := []; wit := 0 |}.
Definition push (p : part) (a b : N) : part :=
  {| ivs := ivs p ++ [(a,b)]; wit := if a <=? wit p then b + 1 else wit p |}.
Definition pget (p : part) (i : nat) : N * N := nth i (ivs p) (MAXC+1, MAXC+1).

(* merge_partitions: triples (i,a,b), (j,c,d) *)
Fixpoint merge_loop (fuel : nat) (p1 p2 : part) (i : nat) (a b : N) (j : nat) (c d : N) (res : part) : option part :=
  match fuel with
  | O => None
  | S f =>
    if negb ((b <=? MAXC) || (d <=? MAXC)) then Some res else
    if b <? c then let '(x,y) := pget p1 i in merge_loop f p1 p2 (S i) x y j c d (push res a b)
    else if d <? a then let '(x,y) := pget p2 j in merge_loop f p1 p2 i a b (S j) x y (push res c d)
    else if c <? a then merge_loop f p1 p2 i a b j a d (push res c (a-1))
    else if a <? c then merge_loop f p1 p2 i c b j c d (push res a (c-1))
    else if b <? d then let '(x,y) := pget p1 i in merge_loop f p1 p2 (S i) x y j (b+1) d (push res a b)
    else if d <? b then let '(x,y) := pget p2 j in merge_loop f p1 p2 i (d+1) b (S j) x y (push res c d)
    else let '(x,y) := pget p1 i in let '(x',y') := pget p2 j in
         merge_loop f p1 p2 (S i) x y (S j) x' y' (push res a b)
  end.
Definition merge (p1 p2 : part) : option part :=
  let '(a,b) := pget p1 0 in let '(c,d) := pget p2 0 in
  merge_loop (2 * (length (ivs p1) + length (ivs p2)) + 2) p1 p2 1 a b 1 c d pnew.

(* class of char: index of interval or None = complement (linear spec) *)
Fixpoint cls (l : list iv) (x : N) (k : nat) : option nat :=
  match l with [] => None | (a,b) :: t => if (a <=? x) && (x <=? b) then Some k else cls t x (S k) end.
Definition cl (p : part) x := cls (ivs p) x 0.
Definition oeq (a b : option nat) := match a, b with None, None => true | Some x, Some y => Nat.eqb x y | _, _ => false end.

(* universe: points 0..n-1 mapped by f to chars *)
Definition pts : list N := [0;1;2;3;4;5].
Definition f (k : N) : N := match k with 0 => 0 | 1 => 1 | 2 => 2 | 3 => 196605 | 4 => 196606 | _ => 196607 end.

(* enumerate partitions over points 0..n-1 as lists of (lo,hi) on point indices *)
Fixpoint enum (fuel : nat) (start n : N) : list (list iv) :=
  match fuel with O => [[]] | S fu =>
  if n <=? start then [[]] else
    (* first point uncovered *)
    enum fu (start+1) n ++
    flat_map (fun len => map (fun rest => (start, start+len-1) :: rest) (enum fu (start+len) n))
             (map N.of_nat (seq 1 (N.to_nat (n - start))))
  end.
Definition mkpart (l : list iv) : part :=
  fold_left (fun p ab => push p (f (fst ab)) (f (snd ab))) l pnew.
Definition allparts := map mkpart (enum 10 0 6).
Eval vm_compute in length allparts.

Definition chars := map f pts.
(* exact characterisation: same class in m iff both in complement of both, or all z in [x,y] (among universe points - here contiguous chars in blocks) share classes *)
Definition between (x y z : N) := (x <=? z) && (z <=? y).
Definition spec_same (p1 p2 : part) (x y : N) : bool :=
  let lo := N.min x y in let hi := N.max x y in
  ((oeq (cl p1 x) None && oeq (cl p2 x) None) && (oeq (cl p1 y) None && oeq (cl p2 y) None))
  || forallb (fun z => negb (between lo hi z) || (oeq (cl p1 z) (cl p1 x) && oeq (cl p2 z) (cl p2 x))) chars.
(* NOTE: universe chars 2 and 196605 are not adjacent: the gap chars are never covered by any interval
   built from these points only when an interval spans 2..196605; so add a mid point to the check list *)
Definition chars' := chars ++ [3; 1000; 196604].
Definition spec_same' (p1 p2 : part) (x y : N) : bool :=
  let lo := N.min x y in let hi := N.max x y in
  ((oeq (cl p1 x) None && oeq (cl p2 x) None) && (oeq (cl p1 y) None && oeq (cl p2 y) None))
  || forallb (fun z => negb (between lo hi z) || (oeq (cl p1 z) (cl p1 x) && oeq (cl p2 z) (cl p2 x))) chars'.

Definition check_pair (p1 p2 : part) : bool :=
  match merge p1 p2 with
  | None => false
  | Some m =>
    forallb (fun x => forallb (fun y => Bool.eqb (oeq (cl m x) (cl m y)) (spec_same' p1 p2 x y)) chars') chars'
  end.
Fixpoint ivs_eqb (l1 l2 : list iv) : bool :=
  match l1, l2 with
  | [], [] => true
  | (a,b)::t1, (c,d)::t2 => (a =? c) && (b =? d) && ivs_eqb t1 t2
  | _, _ => false end.
Definition part_eqb (m m' : part) := ivs_eqb (ivs m) (ivs m') && (wit m =? wit m').
Definition comm_pair (p1 p2 : part) : bool :=
  match merge p1 p2, merge p2 p1 with Some m, Some m' => part_eqb m m' | _, _ => false end.
(* witness = least char not covered, or MAX+1 *)
Fixpoint least_uncovered (l : list iv) (w : N) : N :=
  match l with [] => w | (a,b) :: t => if a <=? w then least_uncovered t (b+1) else w end.
Definition wit_ok (m : part) := wit m =? least_uncovered (ivs m) 0.
Fixpoint sorted_gap (l : list iv) : bool :=
  match l with
  | (a,b) :: (((c,d) :: _) as t) => (a <=? b) && (b <? c) && sorted_gap t
  | [(a,b)] => (a <=? b) && (b <=? MAXC)
  | [] => true end.
Definition wf_ok (p1 p2 : part) := match merge p1 p2 with Some m => sorted_gap (ivs m) && wit_ok m | None => false end.
Definition all_pairs (chk : part -> part -> bool) := forallb (fun p1 => forallb (chk p1) allparts) allparts.
Time Eval vm_compute in all_pairs check_pair.
Time Eval vm_compute in all_pairs comm_pair.
Time Eval vm_compute in all_pairs wf_ok.
(* associativity on a subset (first 60 partitions) *)
Definition sub := firstn 60 allparts.
Definition assoc3 (p1 p2 p3 : part) :=
  match merge p1 p2, merge p2 p3 with
  | Some a, Some b => match merge a p3, merge p1 b with Some x, Some y => part_eqb x y | _, _ => false end
  | _, _ => false end.
Time Eval vm_compute in forallb (fun p1 => forallb (fun p2 => forallb (assoc3 p1 p2) sub) sub) sub.
(* neutral element, idempotence *)
Eval vm_compute in forallb (fun p => match merge p pnew, merge pnew p, merge p p with Some a, Some b, Some c => part_eqb a p && part_eqb b p && part_eqb c p | _,_,_ => false end) allparts.
(* fuel tightness: is 2(n1+n2)+1 enough? *)
Definition merge_f (k : nat) (p1 p2 : part) : option part :=
  let '(a,b) := pget p1 0 in let '(c,d) := pget p2 0 in
  merge_loop (2 * (length (ivs p1) + length (ivs p2)) + k) p1 p2 1 a b 1 c d pnew.
Eval vm_compute in all_pairs (fun p q => match merge_f 1 p q with Some _ => true | None => false end).
Eval vm_compute in all_pairs (fun p q => match merge_f 0 p q with Some _ => true | None => false end).
